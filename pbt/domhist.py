"""domhist.py -- shared history machinery of C13/C14: abstract op lists -> concrete histories (through the M7 model),
execution by harness/xv_dom, per-step comparison.

An abstract operation is a tuple of small integers (k, a, b, c, d).  `k` selects the operation kind from a weighted
table, the others select operands *modulo the current live sets* and strings/offsets from fixed pools, so every list of
tuples is a legal history and deleting an element keeps the rest meaningful (Hypothesis shrinks the list as one value).
The model executes the history first (it does not need the executor), which fixes the concrete operand ids, the expected
outcome of every step and the expected structural dump CRC; then the executor runs the same concrete history in one request.
"""
import zlib, collections
import dommodel as dm
from dommodel import EL, AT, TX, CD, ER, ENT, PI, CM, DOC, DT, FR, NOT, Res, esc

# ---------------------------------------------------------------------------------------------------------
# pools (BMP only; names valid / invalid in every edition of XML 1.0; no "xmlns", no empty-string namespace)
# ---------------------------------------------------------------------------------------------------------
L1NAMES = ['a', 'b', 'c', 'k', 'd1', 'x', 'p:a', 'q:b', 'a:b:c', 'él', '_x', 'a-1', 'xml:lang', 'id',
           '1a', 'a b', '', '<a', '-x']
NSPAIRS = [(None, 'a'), (None, 'b'), ('urn:x', 'a'), ('urn:x', 'p:a'), ('urn:y', 'p:a'), ('urn:y', 'q:b'), ('urn:x', 'q:a'), ('urn:x', 'k'),
           (dm.XML_NS, 'xml:lang'), (None, 'x'), (None, 'd1'),
           (None, 'p:a'), ('urn:x', 'xml:lang'), ('urn:x', 'a:b:c'), ('urn:x', ':a'), ('urn:x', 'a:'), ('urn:x', '1a'), ('urn:x', 'p:1a'), ('urn:x', '')]
NSLOCALS = [(None, 'a'), (None, 'b'), ('urn:x', 'a'), ('urn:y', 'a'), ('urn:y', 'b'), ('urn:x', 'k'), (dm.XML_NS, 'lang'), (None, 'x'), (None, 'd1'), ('urn:z', 'a')]
DATA = ['', 'x', 'hello', ' ', '  \n', 'a&b<c', 'é€', '0123456789', 'ab', ']]>']
ENTNAMES = ['e1', 'e2', 'nope', '1x']
PITARGETS = ['p', 'xml-stylesheet', 'q', '1p']
SIZE_MAX = 2 ** 64 - 1

# ---- ID values that collide in DOMNodeIDMap (open addressing, slot = step = XMLString::hash(id, size-1)+1, sizes 997 -> 9973)
def xml_hash(s, modulus):
    if not s: return 0
    h = ord(s[0])
    for ch in s[1:]: h = ((h * 38) + (h >> 24) + ord(ch)) & 0xFFFFFFFFFFFFFFFF
    return h % modulus
def _collision_pool():
    cand = [p + str(i) for i in range(260) for p in ('sec-', 'fig-', 'n', 'id', 't_', 'tab.', '\u00e9')]
    out = []
    for size, per, groups in ((997, 4, 6), (9973, 2, 5)):
        buckets = {}
        for v in cand: buckets.setdefault(xml_hash(v, size - 1) + 1, []).append(v)
        good = sorted((k, vs) for k, vs in buckets.items() if len(vs) >= per and len(set(x.rstrip('0123456789') for x in vs[:per + 2])) >= 2)
        for k, vs in good[:groups]: out.extend(x for x in vs[:per] if x not in out)
    return out
IDVALS = _collision_pool()
HIDDEN_PREFIX = 'hb-'
IDQ = IDVALS + [HIDDEN_PREFIX + '0', HIDDEN_PREFIX + '1', HIDDEN_PREFIX + '299', HIDDEN_PREFIX + '799', 'nope-1', 'zz', 'x']
ID_OPS = [('idset', 5), ('idon', 5), ('idoff', 2), ('idrm', 3), ('idran', 2), ('idonn', 1), ('idbulk', 1)]
TAGQ = ['a', 'b', '*', 'k', 'p:a', 'r', 'zz']
TAGQNS = [('*', '*'), ('urn:x', 'a'), ('urn:x', '*'), ('*', 'a'), (None, 'a'), (None, '*'), ('urn:y', 'b')]

def doc0_text(flags):
    """the family of parsed start documents: doctype / entities (text-only and element-bearing) / default attribute /
    notation / CDATA / PI are switched by bits -> (bytes, defaults table or None)"""
    dtd = []
    if flags & 1: dtd.append('<!ENTITY e1 "ent-text">')
    if flags & 2: dtd.append('<!ENTITY e2 "<k>in</k>tail">')
    if flags & 4: dtd.append('<!ATTLIST a d1 CDATA "dv1">')
    if flags & 64: dtd.append('<!NOTATION n1 SYSTEM "urn:n1">')
    if flags & 128: dtd.append('<!ATTLIST r id ID #IMPLIED><!ATTLIST a id ID #IMPLIED>')     # DTD-declared ID attributes (values of one probe chain)
    body = '<r><a x="1">t1%s<b/></a><!--c-->%s<a/>%s%stail</r>' % (
        '&e1;' if flags & 1 else '', '<?p d?>' if flags & 16 else '', '&e2;' if flags & 2 else '', '<![CDATA[cd]]>' if flags & 8 else '')
    if flags & 32: body = body.replace('<b/>', '<b><p:a xmlns:p="urn:x" p:k="v"><c/>deep</p:a></b>')
    if flags & 128:
        body = body.replace('<r>', '<r id="%s">' % IDVALS[0], 1).replace('<a x="1">', '<a x="1" id="%s">' % IDVALS[1], 1).replace('<a/>', '<a id="%s"/>' % IDVALS[2], 1)
    text = ('<!DOCTYPE r [%s]>' % ''.join(dtd) if dtd else '') + body
    return text.encode('utf-8'), ({'a': [('d1', 'dv1')]} if flags & 4 else None)

# ---------------------------------------------------------------------------------------------------------
# operation kinds.  (name, weight)
# ---------------------------------------------------------------------------------------------------------
CORE_OPS = [
    ('cel', 6), ('celns', 3), ('ctx', 6), ('ccm', 2), ('ccd', 2), ('cpi', 1), ('cat', 2), ('catns', 2), ('cfr', 2), ('cer', 1),
    ('app', 14), ('ins', 10), ('rem', 8), ('rep', 7),
    ('sat', 5), ('satns', 4), ('rat', 3), ('ratns', 2), ('san', 3), ('sanns', 3), ('ran', 2), ('gat', 1), ('gatns', 1), ('gan', 1), ('ganns', 1), ('hat', 1), ('hatns', 1),
    ('apd', 3), ('insd', 3), ('deld', 3), ('repd', 3), ('subd', 2), ('setv', 3), ('getv', 1), ('split', 4), ('norm', 4),
    ('clone', 5), ('imp', 4),
]
def expand(table):
    out = []
    for name, wt in table: out.extend([name] * wt)
    return out

RETKIND = dict(cel='node', celns='node', ctx='node', ccm='node', ccd='node', cpi='node', cat='node', catns='node', cfr='node', cer='node',
               app='node', ins='node', rem='node', rep='node', san='node', sanns='node', ran='node', gan='node', ganns='node',
               split='node', clone='node', imp='node', ren='node', gid='node',
               itn='node', itp='node', twpa='node', twfc='node', twlc='node', twps='node', twns='node', twpn='node', twnn='node', rext='node', rcln='node')

class Step(object):
    __slots__ = ('line', 'res', 'crc', 'len', 'labels', 'ret_id', 'vcrc', 'vstate', 'opname', 'idx')

class Excluded(Exception):
    def __init__(self, fid): Exception.__init__(self, fid); self.fid = fid

class Hist(object):
    """concretises and model-executes one history"""
    def __init__(self, world, optable, active_excl, with_views=False):
        self.w = world; self.ops = optable; self.excl = set(active_excl); self.steps = []; self.excluded = collections.Counter()
        self.with_views = with_views; self.labels = set(); self.inserted_parents = set(); self.tainted = set()
        self.idq = False    # compare a sample of getElementById lookups after every step
        self.gen = 1        # version of the integer -> offset/count mapping (stored cases without 'gen' keep the old mapping)

    # ---- offsets and counts (XMLSize_t is a 64-bit unsigned type; the harness static_asserts that) ---------------
    def size_extremes(self, ln, offset=None):
        E = [SIZE_MAX, SIZE_MAX - 1, SIZE_MAX - 2, SIZE_MAX - 3, SIZE_MAX - ln, SIZE_MAX - ln - 1, SIZE_MAX // 2, SIZE_MAX // 2 + 1,
             2 ** 32 - 1, 2 ** 32, 2 ** 32 + 1, 2 ** 31, 2 ** 31 - 1, 65536, 5000, 4096, 4095, ln, ln + 1, max(0, ln - 1)]
        if offset is not None:       # the values around which offset + count wraps
            E += [SIZE_MAX - offset, SIZE_MAX - offset + 1 if offset else SIZE_MAX, SIZE_MAX - offset + 2 if offset > 1 else SIZE_MAX, max(0, ln - offset), ln - offset + 1 if offset <= ln else 0]
        return E
    def gen_offset(self, v, ln, slack=3):
        """an offset argument: mostly 0..ln+slack-1 (so a few are just out of range), one in eight an extreme value"""
        if self.gen < 2: return v % (ln + slack)
        sel, idx = v % 8, v // 8
        if sel == 7: E = self.size_extremes(ln); x = min(max(E[idx % len(E)], 0), SIZE_MAX); self.labels.add('extreme-offset'); return x
        return idx % (ln + slack)
    def gen_count(self, v, ln, offset):
        """a count argument: mostly 0..ln+3, one in four an extreme value (2^31, 2^32, SIZE_MAX/2, SIZE_MAX-k, the wrap-around neighbours)"""
        sel, idx = v % 8, v // 8
        if self.gen < 2:
            if sel == 7: return (4294967295, 65536, 5000, 4096)[idx % 4]
            return idx % (ln + 4)
        if sel >= 6:
            E = self.size_extremes(ln, offset); x = min(max(E[idx % len(E)], 0), SIZE_MAX)
            self.labels.add('extreme-count')
            if offset + x > SIZE_MAX: self.labels.add('count-wraps')
            return x
        return idx % (ln + 4)

    # ---- operand selection ---------------------------------------------------------------------
    def live(self): return [n for n in self.w.nodes if not n.dead]
    def pick(self, lst, v): return lst[v % len(lst)] if lst else None
    def any_node(self, v): return self.pick(self.live(), v)
    def of_type(self, types, v): return self.pick([n for n in self.live() if n.t in types], v)
    def parentish(self, v):
        """mostly a node that can have children, sometimes anything (attributes as targets are outside the modelled domain)"""
        sel, idx = v % 8, v // 8
        if sel < 6: n = self.of_type((EL, FR, DOC), idx) if sel < 5 else self.of_type((EL,), idx)
        else: n = self.pick([x for x in self.live() if x.t != AT], idx)
        return n
    def childish(self, p, v):
        sel, idx = v % 8, v // 8
        if sel < 5 and p is not None and p.children: return self.pick(p.children, idx)
        return self.any_node(idx)
    def newchild(self, p, v):
        sel, idx = v % 8, v // 8
        if sel < 3:  # a parentless node (freshly created things)
            c = self.pick([n for n in self.live() if n.parent is None and n.t not in (DOC, AT, ENT, NOT, DT)], idx)
            if c is not None: return c
        if sel < 5: return self.of_type((EL, TX, CM, CD, PI, FR, ER), idx) or self.any_node(idx)
        return self.any_node(idx)
    def doc(self, v): return self.pick(self.w.docs, v)

    def excl_check(self, fid, cond):
        if cond and fid in self.excl: raise Excluded(fid)

    # ---- one abstract op -> (line, Res) ----------------------------------------------------------
    def concretise(self, ab):
        k, a, b, c, d = ab
        op = self.ops[k % len(self.ops)]
        w = self.w; I = lambda n: '-' if n is None else str(n.id)
        L = self.labels
        if op in ('cel', 'ctx', 'ccm', 'ccd', 'cat', 'cfr', 'cer', 'cpi', 'celns', 'catns'):
            doc = self.doc(a)
            if op == 'cel': nm = L1NAMES[b % len(L1NAMES)]; return 'cel\t%s\t%s' % (I(doc), esc(nm)), w.createElement(doc, nm)
            if op == 'cat': nm = L1NAMES[b % len(L1NAMES)]; return 'cat\t%s\t%s' % (I(doc), esc(nm)), w.createAttribute(doc, nm)
            if op == 'celns': ns, q = NSPAIRS[b % len(NSPAIRS)]; return 'celns\t%s\t%s\t%s' % (I(doc), esc(ns), esc(q)), w.createElementNS(doc, ns, q)
            if op == 'catns': ns, q = NSPAIRS[b % len(NSPAIRS)]; return 'catns\t%s\t%s\t%s' % (I(doc), esc(ns), esc(q)), w.createAttributeNS(doc, ns, q)
            if op == 'ctx': s = DATA[b % len(DATA)]; return 'ctx\t%s\t%s' % (I(doc), esc(s)), w.createTextNode(doc, s)
            if op == 'ccm': s = DATA[b % len(DATA)]; return 'ccm\t%s\t%s' % (I(doc), esc(s)), w.createComment(doc, s)
            if op == 'ccd': s = DATA[b % len(DATA)]; return 'ccd\t%s\t%s' % (I(doc), esc(s)), w.createCDATASection(doc, s)
            if op == 'cpi': t = PITARGETS[b % len(PITARGETS)]; s = DATA[c % len(DATA)]; return 'cpi\t%s\t%s\t%s' % (I(doc), esc(t), esc(s)), w.createProcessingInstruction(doc, t, s)
            if op == 'cfr': return 'cfr\t%s' % I(doc), w.createDocumentFragment(doc)
            if op == 'cer': nm = ENTNAMES[b % len(ENTNAMES)]; return 'cer\t%s\t%s' % (I(doc), esc(nm)), w.createEntityReference(doc, nm)
        if op in ('app', 'ins', 'rem', 'rep'):
            p = self.parentish(a)
            if p is None: return None
            if op == 'rem':
                ch = self.childish(p, b)
                pc = self.pick_rem(a, b, c)
                if pc is not None: p, ch = pc
                if ch is None: return None
                if p.id in self.inserted_parents and ch.parent is p: L.add('remove-after-insert')
                self.removal_hook('rem', p, ch, None)
                return 'rem\t%s\t%s' % (I(p), I(ch)), w.removeChild(p, ch)
            nc = self.newchild(p, b)
            if nc is None: return None
            if p.t == AT: return None
            # known finding: a node inserted into itself is accepted (FR: endless loop)
            self.excl_check('C13-self-insert', nc is p and p.t in (EL, FR) and not p.readonly)
            if doc_of(nc) is not doc_of(p): L.add('cross-document')
            if op in ('app', 'ins'): self.taint_check(p, nc, None if op == 'app' else (None if c % 4 == 0 else self.childish(p, c // 4)), None)
            if op == 'app':
                self.removal_hook('ins', p, nc, None)
                self.doc_frag_partial(p, nc, None)
                r = w.appendChild(p, nc)
                if not r.is_err(): self.inserted_parents.add(p.id)
                return 'app\t%s\t%s' % (I(p), I(nc)), r
            if op == 'ins':
                sel = c % 4
                ref = None if sel == 0 else self.childish(p, c // 4)
                self.removal_hook('ins', p, nc, ref)
                self.doc_frag_partial(p, nc, ref)
                r = w.insertBefore(p, nc, ref)
                if not r.is_err(): self.inserted_parents.add(p.id)
                return 'ins\t%s\t%s\t%s' % (I(p), I(nc), I(ref)), r
            if op == 'rep':
                old = self.childish(p, c)
                if old is None: return None
                self.removal_hook('rep', p, nc, old)
                self.doc_frag_partial(p, nc, old, replacing=old)
                self.taint_check(p, nc, old, old)
                if p.id in self.inserted_parents and old.parent is p: L.add('remove-after-insert')
                # known finding: Document.replaceChild(x, x) on the document element/doctype leaves a stale documentElement/doctype
                self.excl_check('C13-document-replaceChild-self', p.t == DOC and nc is old and old.parent is p and old.t in (EL, DT))
                r = w.replaceChild(p, nc, old)
                return 'rep\t%s\t%s\t%s' % (I(p), I(nc), I(old)), r
        if op in ('sat', 'satns', 'rat', 'ratns', 'san', 'sanns', 'ran', 'gat', 'gatns', 'gan', 'ganns', 'hat', 'hatns'):
            e = self.of_type((EL,), a)
            if e is None: return None
            def attrname(v):
                sel, idx = v % 4, v // 4
                if sel < 2 and e.attrs: return self.pick(e.attrs, idx).name
                return L1NAMES[idx % len(L1NAMES)]
            def attrns(v):
                sel, idx = v % 4, v // 4
                cand = [x for x in e.attrs if x.local is not None]
                if sel < 2 and cand: x = self.pick(cand, idx); return x.ns, x.local
                return NSLOCALS[idx % len(NSLOCALS)]
            if op == 'sat':
                nm = attrname(b)
                if w._find_attr(e, nm) and not e.readonly: self.removal_hook('attrval', e, None, None)
            if op == 'sat': nm = attrname(b); s = DATA[c % len(DATA)]; return 'sat\t%s\t%s\t%s' % (I(e), esc(nm), esc(s)), w.setAttribute(e, nm, s)
            if op == 'satns':
                sel, idx = b % 4, b // 4
                cand = [x for x in e.attrs if x.local is not None]
                if sel < 2 and cand:
                    x = self.pick(cand, idx); ns = x.ns; q = x.name if sel == 0 else (('q:' + x.local) if x.ns else x.local)
                else: ns, q = NSPAIRS[idx % len(NSPAIRS)]
                s = DATA[c % len(DATA)]
                # known finding: the prefix of an existing attribute is not updated
                codes, prefix, local = dm.qname_errors(ns, q, True)
                if not codes and not e.readonly:
                    f = w._find_attr_ns(e, ns, local)
                    if f or w._l1_clash(e, ns, local, q): self.removal_hook('attrval', e, None, None)
                    self.excl_check('C13-setAttributeNS-prefixed-lookup', bool(f) and prefix is not None)
                    self.excl_check('C13-setAttributeNS-keeps-prefix', bool(f) and prefix is None and f[0].prefix is not None)
                return 'satns\t%s\t%s\t%s\t%s' % (I(e), esc(ns), esc(q), esc(s)), w.setAttributeNS(e, ns, q, s)
            def defaults_lost(at):
                # known finding: an element made by cloneNode does not get DTD defaults back
                self.excl_check('C13-clone-loses-defaults', at is not None and e.cloned and not e.readonly and any(an == at.name for an, _ in w.default_attrs(e.doc, e.name)))
            if op == 'rat': nm = attrname(b); defaults_lost((w._find_attr(e, nm) or [None])[0]); return 'rat\t%s\t%s' % (I(e), esc(nm)), w.removeAttribute(e, nm)
            if op == 'ratns':
                ns, ln = attrns(b); _f = w._find_attr_ns(e, ns, ln)
                # known finding: removeAttributeNS releases the Attr without taking it out of the document's ID table
                self.excl_check('C14-removeAttributeNS-keeps-id', bool(_f) and bool(_f[0].isid) and not e.readonly)
            if op == 'ratns': ns, ln = attrns(b); defaults_lost((w._find_attr_ns(e, ns, ln) or [None])[0]); return 'ratns\t%s\t%s\t%s' % (I(e), esc(ns), esc(ln)), w.removeAttributeNS(e, ns, ln)
            if op in ('san', 'sanns', 'ran'):
                sel, idx = b % 4, b // 4
                if op == 'ran' and sel < 3 and e.attrs: at = self.pick(e.attrs, idx)
                elif sel == 0: at = self.pick([x for x in self.live() if x.t == AT and x.owner is None], idx) or self.of_type((AT,), idx)
                else: at = self.of_type((AT,), idx)
                if at is None: return None
                if at.doc is not e.doc: L.add('cross-document')
                # known finding (same family as the clone case): a default attribute stays "unspecified" when it is detached
                if op in ('san', 'sanns'): self.excl_check('C13-clone-attr-specified', at.owner is None and not at.specified)
                if op == 'san':
                    self.excl_check('C13-setAttributeNode-self', at.owner is e and not e.readonly)
                    return 'san\t%s\t%s' % (I(e), I(at)), w.setAttributeNode(e, at)
                if op == 'sanns':
                    if at.local is None: return None     # NS-aware insertion of a DOM Level 1 attribute: outside the domain
                    self.excl_check('C13-setAttributeNodeNS-self-inuse', at.owner is e and not e.readonly)
                    # known finding: replacing an attribute of the same expanded name but another qualified name in place breaks the sort order of the map
                    fx = w._find_attr_ns(e, at.ns, at.local)
                    self.excl_check('C13-setNamedItemNS-breaks-sort-order', bool(fx) and fx[0].name != at.name and at.owner is None and at.doc is e.doc and not e.readonly)
                    return 'sanns\t%s\t%s' % (I(e), I(at)), w.setAttributeNodeNS(e, at)
                if at.owner is e: defaults_lost(at)
                return 'ran\t%s\t%s' % (I(e), I(at)), w.removeAttributeNode(e, at)
            if op == 'gat': nm = attrname(b); return 'gat\t%s\t%s' % (I(e), esc(nm)), w.getAttribute(e, nm)
            if op == 'gan': nm = attrname(b); return 'gan\t%s\t%s' % (I(e), esc(nm)), w.getAttributeNode(e, nm)
            if op == 'hat': nm = attrname(b); return 'hat\t%s\t%s' % (I(e), esc(nm)), w.hasAttribute(e, nm)
            ns, ln = attrns(b)
            if op == 'gatns': return 'gatns\t%s\t%s\t%s' % (I(e), esc(ns), esc(ln)), w.getAttributeNS(e, ns, ln)
            if op == 'ganns': return 'ganns\t%s\t%s\t%s' % (I(e), esc(ns), esc(ln)), w.getAttributeNodeNS(e, ns, ln)
            if op == 'hatns': return 'hatns\t%s\t%s\t%s' % (I(e), esc(ns), esc(ln)), w.hasAttributeNS(e, ns, ln)
        if op in ('apd', 'insd', 'deld', 'repd', 'subd'):
            n = self.pick_text(a, (TX, CD, CM)) or self.of_type((TX, CD, CM), a)
            if n is None: return None
            ln = len(n.value)
            _o = self.gen_offset(b, ln); _c = self.gen_count(c, ln, _o)
            def off(v): return _o
            def cnt(v): return _c
            s = DATA[d % len(DATA)]
            if op == 'apd': return 'apd\t%s\t%s' % (I(n), esc(s)), w.appendData(n, s)
            self.text_hook(op, n, off(b), min(cnt(c), max(0, ln - off(b))) if off(b) <= ln else 0)
            if op == 'insd': return 'insd\t%s\t%d\t%s' % (I(n), off(b), esc(s)), w.insertData(n, off(b), s)
            if op == 'deld': return 'deld\t%s\t%d\t%d' % (I(n), off(b), cnt(c)), w.deleteData(n, off(b), cnt(c))
            if op == 'repd': return 'repd\t%s\t%d\t%d\t%s' % (I(n), off(b), cnt(c), esc(s)), w.replaceData(n, off(b), cnt(c), s)
            if op == 'subd':
                # known finding: newString[count] = 0 is written without clamping count (stack buffer of 4096 units, or a heap buffer of len+1)
                self.excl_check('C13-substringData-count-overflow', off(b) <= ln and ((ln < 4095 and cnt(c) >= 4096) or (ln >= 4095 and cnt(c) > ln)))
                return 'subd\t%s\t%d\t%d' % (I(n), off(b), cnt(c)), w.substringData(n, off(b), cnt(c))
        if op in ('setv', 'getv'):
            sel, idx = a % 4, a // 4
            n = self.of_type((TX, CD, CM, PI, AT), idx) if sel < 3 else self.any_node(idx)
            if n is None: return None
            if op == 'getv': return 'getv\t%s' % I(n), w.getNodeValue(n)
            s = DATA[b % len(DATA)]
            if n.t == AT and not n.readonly: self.removal_hook('attrval', n, None, None)
            return 'setv\t%s\t%s' % (I(n), esc(s)), w.setNodeValue(n, s)
        if op == 'split':
            n = self.pick_text(a, (TX, CD)) or self.of_type((TX, CD), a)
            if n is None: return None
            o = self.gen_offset(b, len(n.value), slack=2)
            self.split_pre(n, o)
            return 'split\t%s\t%d' % (I(n), o), self.split_hook(n, o, w.splitText(n, o))
        if op == 'norm':
            sel, idx = a % 4, a // 4
            n = self.of_type((EL, DOC, FR), idx) if sel < 3 else self.pick([x for x in self.live() if x.t not in (AT, ENT, NOT, DT)], idx)
            if n is None: return None
            self.excl_check('C13-normalize-empty-text', any(all(t.value == '' for t in run) for run in w.text_runs(n)))
            self.removal_hook('norm', n, None, None)
            r = w.normalize(n)
            return 'norm\t%s' % I(n), self.norm_hook(n, r)
        if op == 'clone':
            n = self.pick([x for x in self.live() if x.t not in (DOC, DT, ENT, NOT)], a)
            if n is None: return None
            deep = b % 2
            # known finding: a directly cloned default attribute stays unspecified
            self.excl_check('C13-clone-attr-specified', n.t == AT and not n.specified)
            r = w.cloneNode(n, bool(deep))
            # known finding: the clone of a first child carries the internal "first child" flag
            if 'C13-clone-firstchild-flag' in self.excl and ((n.parent is not None and n.parent.children[0] is n) or n in self.tainted) and r is not None and not r.is_err():
                self.tainted.add(r.ret)
            return 'clone\t%s\t%d' % (I(n), deep), r
        if op == 'imp':
            doc = self.doc(a)
            n = self.pick([x for x in self.live() if x.t not in (ENT, NOT)], b)
            if n is None: return None
            deep = c % 2
            if doc_of(n) is not doc: L.add('cross-document')
            if any(x.t == EL and (len(set(y.name for y in x.attrs)) != len(x.attrs) or len(set((y.ns, y.local) for y in x.attrs if y.local is not None)) != len([y for y in x.attrs if y.local is not None])) for x in (dm.subtree(n) if deep else [n])):
                return None      # element whose attribute set mixes Level 1 / namespace-aware duplicates: outside the domain
            return 'imp\t%s\t%s\t%d' % (I(doc), I(n), deep), w.importNode(doc, n, bool(deep))
        if op in ('idset', 'idon', 'idoff', 'idrm', 'idran', 'idonn', 'idbulk'):
            L.add('id-ops')
            if op == 'idbulk':
                doc = self.doc(a); n = (300, 800, 40)[b % 3]
                if doc.id in w.hidden_ids: return None          # once per document (the values must stay unique)
                w.hidden_ids[doc.id] = set(HIDDEN_PREFIX + str(i) for i in range(n))
                if n >= 798: L.add('id-table-grown')
                return 'idbulk\t%s\t%d\t%s' % (I(doc), n, HIDDEN_PREFIX), Res.ok()
            sel, idx = a % 4, a // 4
            withid = [x for x in self.live() if x.t == EL and any(y.name == 'id' for y in x.attrs)]
            e = self.pick(withid, idx) if (sel < 3 and withid and op != 'idset') or (sel == 0 and withid) else self.of_type((EL,), idx)
            if e is None: return None
            at = next((y for y in e.attrs if y.name == 'id'), None)
            if op == 'idset':
                v = IDVALS[b % len(IDVALS)]
                if at is not None and not e.readonly: self.removal_hook('attrval', e, None, None)
                return 'sat\t%s\tid\t%s' % (I(e), esc(v)), w.setAttribute(e, 'id', v)
            if op in ('idon', 'idoff'): return 'sid\t%s\tid\t%d' % (I(e), op == 'idon'), w.setIdAttribute(e, 'id', op == 'idon')
            if op == 'idrm': return 'rat\t%s\tid' % I(e), w.removeAttribute(e, 'id')
            if at is None: return None
            if op == 'idran': return 'ran\t%s\t%s' % (I(e), I(at)), w.removeAttributeNode(e, at)
            if op == 'idonn': return 'sidn\t%s\t%s\t%d' % (I(e), I(at), 1 - b % 4 // 3), w.setIdAttributeNode(e, at, b % 4 != 3)
        return self.concretise_ext(op, ab)

    def concretise_ext(self, op, ab):
        return None
    def removal_hook(self, kind, p, c, ref): pass
    def pick_rem(self, a, b, c): return None
    def pick_text(self, a, types): return None
    def text_hook(self, op, n, off, cnt): pass
    def split_hook(self, n, off, res): return res
    def split_pre(self, n, off): pass
    def norm_hook(self, n, res): return res

    def taint_check(self, p, nc, ref, replacing):
        """known finding C13-clone-firstchild-flag: such a clone must not become a non-first child"""
        if nc not in self.tainted: return
        codes = self.w._insert_codes(p, nc, ref if replacing is None else None, replacing=replacing)
        if replacing is not None and replacing.parent is not p: codes.add(dm.NOT_FOUND)
        if codes and not (codes == {dm.HIERARCHY} and self.w._ws_text_under_document(p, nc)): return
        first = (not p.children) if ref is None else (p.children[0] is ref)
        if first: self.tainted.discard(nc); return
        raise Excluded('C13-clone-firstchild-flag')

    def doc_frag_partial(self, p, nc, ref, replacing=None):
        """known finding: Document.insertBefore(fragment) moves the children one by one and fails half way when the
        fragment brings a second element/doctype"""
        if 'C13-document-fragment-partial-insert' not in self.excl: return
        if p.t == DOC and nc.t == FR and not p.readonly and doc_of(nc) is p:
            codes = self.w._insert_codes(p, nc, ref, replacing=replacing)
            if codes == {dm.HIERARCHY} and all(k.t in dm.ALLOWED[DOC] or (k.t == TX and k.value != '' and k.value.strip(' \t\r\n') == '') for k in nc.children) and nc.children:
                raise Excluded('C13-document-fragment-partial-insert')

    # ---- canned preludes: concrete scripts so that most histories start from trees worth mutating --------
    def prelude(self, kind):
        w = self.w; I = lambda n: str(n.id)
        def mk(line, res):
            self.emit((line, res)); return res.ret if isinstance(res.ret, dm.Node) else None
        def app(p, c):
            r = w.appendChild(p, c)
            if not r.is_err(): self.inserted_parents.add(p.id)
            mk('app\t%s\t%s' % (I(p), I(c)), r)
        if kind == 0: return
        docs = w.docs if kind == 3 else [w.docs[-1] if kind == 1 else w.docs[0]]
        for d in docs:
            a = mk('cel\t%s\ta' % I(d), w.createElement(d, 'a'))
            b = mk('celns\t%s\turn:x\tp:b' % I(d), w.createElementNS(d, 'urn:x', 'p:b'))
            t1 = mk('ctx\t%s\thello' % I(d), w.createTextNode(d, 'hello'))
            t2 = mk('ctx\t%s\tx' % I(d), w.createTextNode(d, 'x'))
            cm = mk('ccm\t%s\tc' % I(d), w.createComment(d, 'c'))
            app(a, t1); app(a, b); app(b, t2); app(a, cm)
            mk('sat\t%s\tx\t1' % I(a), w.setAttribute(a, 'x', '1'))
            mk('satns\t%s\turn:y\tq:k\tv' % I(b), w.setAttributeNS(b, 'urn:y', 'q:k', 'v'))
            if not any(c.t == EL for c in d.children): app(d, a)
            if kind == 2:
                f = mk('cfr\t%s' % I(d), w.createDocumentFragment(d))
                e = mk('cel\t%s\tc' % I(d), w.createElement(d, 'c'))
                t3 = mk('ctx\t%s\t0123456789' % I(d), w.createTextNode(d, '0123456789'))
                app(f, e); app(f, t3)

    def id_prelude(self, kind):
        """ID attributes on the elements built so far, with values from the colliding pool; optionally a few hundred hidden
        filler ids (kind 2: 300 before, kind 3: 800 after -> the table grows from 997 to 9973 slots and is rehashed)"""
        w = self.w
        if not kind: return
        self.idq = True
        if kind == 2:
            w.hidden_ids[w.docs[0].id] = set(HIDDEN_PREFIX + str(i) for i in range(300))
            self.emit(('idbulk\t%d\t300\t%s' % (w.docs[0].id, HIDDEN_PREFIX), Res.ok()))
        els = [x for x in self.live() if x.t == EL and not x.readonly][:len(IDVALS)]
        for i, e in enumerate(els):
            v = IDVALS[(i + 4 * kind) % len(IDVALS)]      # neighbours in the pool share one probe chain
            if 'C14-iterator-unstepped-removechild' in self.excl and any(y.name == 'id' for y in e.attrs): continue
            self.emit(('sat\t%d\tid\t%s' % (e.id, esc(v)), w.setAttribute(e, 'id', v)))
            self.emit(('sid\t%d\tid\t1' % e.id, w.setIdAttribute(e, 'id', True)))
        if kind == 3:
            w.hidden_ids[w.docs[0].id] = set(HIDDEN_PREFIX + str(i) for i in range(800)); self.labels.add('id-table-grown')
            self.emit(('idbulk\t%d\t800\t%s' % (w.docs[0].id, HIDDEN_PREFIX), Res.ok()))

    # ---- run --------------------------------------------------------------------------------------
    def run(self, abstract_ops):
        for ab in abstract_ops:
            try:
                cr = self.concretise(tuple(ab))
            except Excluded as e:
                self.excluded[e.fid] += 1; cr = None
            self.emit(cr)
        return self.steps

    def emit(self, cr):
        w = self.w
        if True:
            st = Step(); st.labels = ()
            if cr is None or cr[1] is None:
                st.line = 'nop'; st.res = Res.ok(); st.opname = 'nop'
            else:
                st.line, st.res = cr; st.opname = st.line.split('\t', 1)[0]
            r = st.res
            for n in r.killed: w.kill(n)
            ret = r.ret if isinstance(r.ret, dm.Node) else None
            w.discover(ret)
            st.ret_id = ret.id if ret is not None else None
            st.crc, st.len = w.dump_crc()
            st.idx = [[w.id_expect(d, v) for v in IDQ] for d in w.docs] if self.idq else None
            if self.with_views: st.vstate = w.view_state(); st.vcrc = '%08x' % (zlib.crc32(st.vstate.encode('ascii')) & 0xFFFFFFFF)
            else: st.vstate = None; st.vcrc = None
            self.steps.append(st)

def doc_of(n): return dm.doc_of(n)

# ---------------------------------------------------------------------------------------------------------
# executor side
# ---------------------------------------------------------------------------------------------------------
_init_cache = {}
def get_init(ex, setup):
    key = (setup['ndocs'], setup.get('flags'))
    if key not in _init_cache:
        req = {'kind': 'dom', 'ndocs': str(setup['ndocs']), 'ops': ''}
        if setup.get('flags') is not None: req['doc0'] = doc0_text(setup['flags'])[0]
        resp = ex.request(req)
        lines = resp.split('\n')
        if not lines[0].startswith('INIT\t'): raise RuntimeError('bad setup response: %r' % resp[:200])
        hdr = lines[0].split('\t')
        _init_cache[key] = (hdr[1], '\n'.join(lines[1:]))
    return _init_cache[key]

def expected_outcome(st):
    """-> predicate text of the expected executor outcome field"""
    r = st.res
    if r.is_err(): return 'exc:{%s}' % ','.join(str(c) for c in sorted(r.codes))
    rk = RETKIND.get(st.opname)
    if isinstance(r.ret, dm.Node): return 'ok:n%d' % r.ret.id
    if isinstance(r.ret, tuple):
        if r.ret[0] == 's': return 'ok:s' + esc(r.ret[1])
        if r.ret[0] == 'i': return 'ok:i%d' % r.ret[1]
        if r.ret[0] == 'v': return 'ok:v%d' % r.ret[1]
    if rk == 'node': return 'ok:-'
    return 'ok'

def outcome_matches(st, got):
    r = st.res
    if r.is_err():
        return got.startswith('exc:') and got[4:].isdigit() and int(got[4:]) in r.codes
    if r.note == 'self-replace': return got.startswith('ok')
    return got == expected_outcome(st)

def execute(ex, setup, steps, full=False, views=False):
    req = {'kind': 'dom', 'ndocs': str(setup['ndocs']), 'ops': '\n'.join(s.line for s in steps)}
    if setup.get('flags') is not None: req['doc0'] = doc0_text(setup['flags'])[0]
    if full: req['full'] = '1'
    if views: req['views'] = '1'
    if any(s.idx is not None for s in steps): req['ids'] = '\n'.join(esc(v) for v in IDQ)
    return ex.request(req, timeout=300)

def parse_response(resp):
    """-> (init_hdr, init_dump, [ (fields, dumptext) per step ])"""
    init = None; init_dump = []; steps = []; cur = None
    for line in resp.split('\n'):
        if not line: continue
        if line.startswith('INIT\t'): init = line.split('\t'); cur = init_dump; continue
        if line.startswith('S\t'):
            cur = []; steps.append((line.split('\t'), cur)); continue
        if line.startswith('BADSETUP'): raise RuntimeError(line)
        cur.append(line)
    return init, '\n'.join(init_dump), steps

def compare(steps, resp_steps, init_crc, views=False):
    """-> (failure detail | None, index of failing step, diverged_at)   lock-step comparison"""
    prev_crc = init_crc
    diverged = None
    for i, st in enumerate(steps):
        if i >= len(resp_steps):
            return 'executor stopped after %d of %d steps' % (len(resp_steps), len(steps)), i, diverged
        f, _ = resp_steps[i]
        got, inv, crc = f[2], f[3], f[4]
        if got.startswith('bad:'):
            if diverged is not None: return None, None, diverged      # ids are meaningless after a tolerated divergence
            return 'harness rejected the operation (%s): %s' % (got, st.line), i, diverged
        if inv != '-':
            return 'structural invariant violated after step %d (%s): %s' % (i, st.line.replace('\t', ' '), inv), i, diverged
        if diverged is not None:
            prev_crc = crc; continue
        ok = outcome_matches(st, got)
        want_crc = prev_crc if st.res.is_err() else st.crc
        if st.res.unspec is not None:
            if not ok or crc != want_crc or (views and len(f) > 6 and f[6] != st.vcrc):
                # the implementation made another (permitted) choice: the model no longer describes the state, and the
                # by-construction exclusions of known defects are no longer reliable -> the comparison ends here
                return None, None, i
            prev_crc = crc; continue
        if not ok:
            return 'step %d (%s): outcome %s, the model expects %s' % (i, st.line.replace('\t', ' '), got, expected_outcome(st)), i, diverged
        if st.res.is_err() and crc != prev_crc:
            return 'step %d (%s): raised %s but the trees changed' % (i, st.line.replace('\t', ' '), got), i, diverged
        if crc != want_crc:
            return 'step %d (%s): structural dump differs from the model (outcome %s)' % (i, st.line.replace('\t', ' '), got), i, diverged
        if views and len(f) > 6 and f[6] != st.vcrc:
            return 'step %d (%s): state of the live views differs from the model (outcome %s)' % (i, st.line.replace('\t', ' '), got), i, diverged
        if st.idx is not None:
            for gl in resp_steps[i][1]:
                if not gl.startswith('G\t'): continue
                g = gl.split('\t'); di = int(g[1])
                for q, want in enumerate(st.idx[di]):
                    if want is not None and g[2 + q] != want:
                        return 'step %d (%s): getElementById(%r) on document %d returns %s, the model expects %s' % (
                            i, st.line.replace('\t', ' '), IDQ[q], di, g[2 + q], want), i, diverged
        prev_crc = crc
    return None, None, diverged


def model_world(init_dump, setup):
    w = dm.World.from_init(init_dump, setup['ndocs'], doc0_text(setup['flags'])[1] if setup.get('flags') is not None else None)
    if setup.get('flags') is not None and setup['flags'] & 128:
        for n in w.nodes:       # the parser registers attributes of DTD type ID
            if n.t == AT and n.name == 'id' and n.owner is not None and n.owner.name in ('r', 'a') and n.doc is w.docs[0] and not n.owner.readonly:
                n.isid = True; w.idattrs.append(n)
    return w

def run_case(case, ex, optable, views=False, hist_cls=None):
    """one history: model first, then the executor, then the per-step comparison -> (ok, detail, hist)"""
    import xv
    hist_cls = hist_cls or Hist
    setup = case['setup']
    try:
        inv0, init_dump = get_init(ex, setup)
    except xv.ExecutorDied as e:
        return False, 'executor died during setup rc=%s\n%s' % (e.rc, e.stderr[-2000:]), None
    if inv0 != '-': return False, 'structural invariant violated in the initial state: ' + inv0, None
    w = model_world(init_dump, setup)
    crc0 = '%08x' % (zlib.crc32(w.dump().encode('ascii')) & 0xFFFFFFFF)
    h = hist_cls(w, optable, case.get('excl', []), with_views=views); h.gen = case.get('gen', 1)
    h.idq = bool(case.get('idq'))
    h.prelude(setup.get('pre', 0)); h.id_prelude(setup.get('idpre', 0))
    steps = h.run(case['ops'])
    try:
        resp = execute(ex, setup, steps, views=views)
    except xv.ExecutorDied as e:
        # did the history pass a diverged "unspecified" step before it died?  then everything behind that step is outside
        # the model (and outside the exclusions of known defects): cut the history there and judge the prefix only
        for u in [i for i, s in enumerate(steps) if s.res.unspec is not None]:
            try:
                r0 = execute(ex, setup, steps[:u + 1], views=views)
            except xv.ExecutorDied:
                break
            i0, _, rs0 = parse_response(r0)
            d0, at0, div0 = compare(steps[:u + 1], rs0, crc0, views=views)
            if d0 is not None: break
            if div0 is not None:
                h.labels.add('unspec-diverged'); h.labels.add('cut-after-divergence')
                del h.steps[u + 1:]
                return True, 'ok (history cut at the diverged unspecified step %d)' % u, h
        return False, 'executor died rc=%s (memory-safety failure or abort in the code under test)\n%s\nhistory:\n%s' % (
            e.rc, e.stderr[-3000:], '\n'.join('%d %s' % (i, s.line.replace('\t', ' ')) for i, s in enumerate(steps))), h
    init, idump, rsteps = parse_response(resp)
    if init[2] != crc0:
        return False, 'MODEL-SELFCHECK: the model rebuilt from the initial dump does not reproduce it', h
    detail, at, div = compare(steps, rsteps, crc0, views=views)
    if div is not None: h.labels.add('unspec-diverged')
    if detail is None: return True, 'ok', h
    # enrich: full dumps of the failing step from both sides
    try:
        resp2 = execute(ex, setup, steps[:at + 1], full=True, views=views)
        _, _, r2 = parse_response(resp2)
        got_dump = '\n'.join(r2[at][1]) if at < len(r2) else '(none)'
    except xv.ExecutorDied:
        got_dump = '(executor died while re-running for the dump)'
    w2 = model_world(init_dump, setup)
    h2 = hist_cls(w2, optable, case.get('excl', []), with_views=views); h2.gen = case.get('gen', 1)
    h2.idq = bool(case.get('idq'))
    h2.prelude(setup.get('pre', 0)); h2.id_prelude(setup.get('idpre', 0)); npre = len(h2.steps)
    h2.run(case['ops'][:max(0, at + 1 - npre)])
    mdump = w2.dump() + (w2.view_state() if views else '')
    hist = '\n'.join('%3d %-40s -> model %s%s' % (i, s.line.replace('\t', ' '), expected_outcome(s), ' [unspecified: %s]' % s.res.unspec if s.res.unspec else '')
                     for i, s in enumerate(steps[:at + 1]) if s.line != 'nop')
    detail += '\n--- history up to the failing step\n%s\n--- dump by xerces after the step\n%s\n--- dump by the model after the step\n%s' % (hist, got_dump, mdump)
    return False, detail, h


# ---------------------------------------------------------------------------------------------------------
# C14: histories with live views
# ---------------------------------------------------------------------------------------------------------
VIEW_CORE_OPS = [('cit', 4), ('itn', 12), ('itp', 7), ('itd', 1), ('gebt', 3), ('gebtns', 2),
                 ('crg', 4), ('rss', 6), ('rse', 6), ('rsb', 2), ('rsa', 2), ('reb', 2), ('rea', 2), ('rcol', 2), ('rsel', 3), ('rselc', 3),
                 ('rcmp', 3), ('rcr', 1), ('rts', 3), ('rdet', 1)]
WALKER_OPS = [('ctw', 3), ('twpa', 3), ('twfc', 4), ('twlc', 3), ('twps', 3), ('twns', 4), ('twpn', 4), ('twnn', 6), ('twsc', 3)]
SHOWS = [dm.SHOW_ALL, dm.SHOW_ALL, 1, 4, 5, 0x80, dm.SHOW_ALL & ~4, dm.SHOW_ALL & ~1, 1 | 4 | 8 | 16]
FILTERS = [None, None, (1, {'b': 2}), (1, {'a': 3}), (3, {'#text': 1}), (1, {'#text': 2, 'k': 3}), (1, {'p:b': 2, '#comment': 3}), (2, {'a': 1, 'r': 1, '#text': 1, 'p:b': 3}), (1, {'r': 3, 'a': 3})]

class ViewHist(Hist):
    def views(self, kind): return [v for v in self.w.views if v.kind == kind]
    def node_in_doc(self, doc, v, types=None):
        cand = [n for n in self.live() if dm.doc_of(n) is doc and n.t != AT and (types is None or n.t in types)]
        return self.pick(cand, v)

    # ---- known findings of the view machinery ------------------------------------------------------------
    def virgin_iterators(self, doc):
        return [v for v in self.views('I') if v.doc is doc and not v.detached and not v.stepped]
    def removal_hook(self, kind, p, c, ref):
        """known finding: removeChild anywhere in a document that has a NodeIterator which never returned a node"""
        w = self.w
        if kind == 'norm': self._norm_work = any(len(run) > 1 or run[0].value == '' for run in w.text_runs(p))
        if 'C14-iterator-unstepped-removechild' not in self.excl: return
        if kind == 'attrval':       # Attr.setValue removes the attribute's Text children through removeChild
            if self.virgin_iterators(dm.doc_of(p)): raise Excluded('C14-iterator-unstepped-removechild')
            return
        if kind == 'rem':
            if not w.virgin_ok(self, p, [c] if (c.parent is p and not p.readonly) else []): raise Excluded('C14-iterator-unstepped-removechild')
            return
        if kind == 'norm':
            doc = dm.doc_of(p)
            self._norm_work = any(len(run) > 1 or run[0].value == '' for run in w.text_runs(p))
            if self.virgin_iterators(doc) and (any(len(run) > 1 or run[0].value == '' for run in w.text_runs(p))): raise Excluded('C14-iterator-unstepped-removechild')
            return
        if kind == 'rep' and c is ref and ref.parent is p and not p.readonly:
            # replaceChild(x, x) (implementation dependent): Xerces removes x whatever else applies
            if self.virgin_iterators(dm.doc_of(ref)): raise Excluded('C14-iterator-unstepped-removechild')
            return
        codes = w._insert_codes(p, c, ref if kind == 'ins' else None, replacing=ref if kind == 'rep' else None)
        if kind == 'rep' and ref.parent is not p: codes.add(dm.NOT_FOUND)
        if codes and not (codes == {dm.HIERARCHY} and w._ws_text_under_document(p, c)): return
        removed = []
        if kind == 'rep': removed.append(ref)
        if c.t == FR: removed.extend(c.children)
        elif c.parent is not None: removed.append(c)
        if any(self.virgin_iterators(dm.doc_of(x)) for x in removed): raise Excluded('C14-iterator-unstepped-removechild')
    def text_hook(self, op, n, off, cnt):
        """known finding: text inserted before a range *start* in the same node clamps the start offset instead of shifting it"""
        if 'C14-range-start-clamped-on-text-insert' not in self.excl or n.readonly: return
        if op not in ('insd', 'repd') or off > len(n.value): return
        for r in self.views('R'):
            if r.detached or r.sc is not n: continue
            if (op == 'insd' and r.so > off) or (op == 'repd' and r.so > off + cnt): raise Excluded('C14-range-start-clamped-on-text-insert')
    def pick_rem(self, a, b, c):
        """every third removeChild aims at the reference node of a live iterator or at a range container (or an ancestor of it)"""
        if a % 3 != 2: return None
        cands = [v.ref for v in self.views('I') if not v.detached] + [r.sc for r in self.views('R') if not r.detached] + [r.ec for r in self.views('R') if not r.detached]
        n = self.pick(cands, b)
        for _ in range(c % 3):
            if n is not None and n.parent is not None and n.parent.parent is not None: n = n.parent
        if n is None or n.parent is None: return None
        return n.parent, n
    def pick_text(self, a, types):
        """every third character-data edit aims at a Text/Comment that holds a boundary point of a live range"""
        if a % 3 != 2: return None
        cands = [x for r in self.views('R') if not r.detached for x in (r.sc, r.ec) if x.t in types and not x.dead]
        return self.pick(cands, a // 3)
    def split_pre(self, n, off):
        if n.readonly or off > len(n.value): return
        for r in self.views('R'):
            if r.detached: continue
            inside = (r.sc is n and r.so > off) or (r.ec is n and r.eo > off)
            # known finding: the new node of a parentless Text becomes a range container although it is in no tree with the other boundary
            self.excl_check('C14-range-splitText-detached', n.parent is None and inside)
            # known finding: the start moves into the new node but an end directly behind the split node stays in front of it
            self.excl_check('C14-range-splitText-start-after-end', n.parent is not None and r.sc is n and r.so > off and r.ec is n.parent and r.eo == dm.index_of(n) + 1)
    def split_hook(self, n, off, res):
        if not res.is_err() and any((not r.detached) and ((r.sc is n and r.so > off) or (r.ec is n and r.eo > off)) for r in self.views('R')):
            res.unspec = res.unspec or 'splitText with a range boundary behind the split offset (DOM2 Range gives no rule; DOM4 moves it to the new node)'
        return res
    def norm_hook(self, n, res):
        if self._norm_work and any((not r.detached) and r.doc is dm.doc_of(n) for r in self.views('R')):
            res.unspec = res.unspec or 'normalize() that merges Text while a range is alive in the document (no rule in DOM2 Range)'
        return res

    list_changed = False; _lprev = None; _norm_work = False
    def emit(self, cr):
        Hist.emit(self, cr)
        cur = dict((v.id, v.state()) for v in self.views('L'))
        if self._lprev:
            for k, st in cur.items():
                if k in self._lprev and self._lprev[k] != st: self.list_changed = True
        self._lprev = cur

    def concretise_ext(self, op, ab):
        k, a, b, c, d = ab
        w = self.w; I = lambda n: '-' if n is None else str(n.id); L = self.labels
        if op in ('cit', 'ctw'):
            doc = self.doc(a)
            sel, idx = b % 4, b // 4
            root = doc if sel == 0 else self.node_in_doc(doc, idx, (EL, FR, DOC) if sel < 3 else None)
            if root is None: return None
            show = SHOWS[c % len(SHOWS)]; fs = FILTERS[(c // 16) % len(FILTERS)]; expand = (d % 2) == 1
            flt = dm.NameFilter(*fs) if fs else None
            v = (dm.NodeIter if op == 'cit' else dm.Walker)(w, doc, root, show, flt, expand)
            return '%s\t%s\t%s\t%d\t%s\t%d' % (op, I(doc), I(root), show, flt.spec() if flt else '-', 1 if expand else 0), Res.ok(('v', v.id))
        if op in ('itn', 'itp', 'itd'):
            v = self.pick(self.views('I'), a)
            if v is None: return None
            if op == 'itn': return 'itn\t%d' % v.id, v.nextNode()
            if op == 'itp': return 'itp\t%d' % v.id, v.previousNode()
            return 'itd\t%d' % v.id, v.detach()
        if op in ('gebt', 'gebtns'):
            sel, idx = a % 4, a // 4
            n = self.pick(w.docs, idx) if sel == 0 else self.of_type((EL,), idx)
            if n is None: return None
            # known finding: the list pool keys getElementsByTagName(X) and getElementsByTagNameNS(null, X) of one root alike
            if op == 'gebt': nm0 = TAGQ[b % len(TAGQ)]; clash = any(l.root is n and l.ns_aware and l.ns is None and l.name == nm0 for l in self.views('L'))
            else: ns0, ln0 = TAGQNS[b % len(TAGQNS)]; clash = ns0 is None and any(l.root is n and not l.ns_aware and l.name == ln0 for l in self.views('L'))
            self.excl_check('C14-deepnodelist-pool-collision', clash)
            if op == 'gebt':
                nm = TAGQ[b % len(TAGQ)]; v = dm.TagList(w, n, False, None, nm)
                return 'gebt\t%s\t%s' % (I(n), esc(nm)), Res.ok(('v', v.id))
            ns, ln = TAGQNS[b % len(TAGQNS)]; v = dm.TagList(w, n, True, ns, ln)
            return 'gebtns\t%s\t%s\t%s' % (I(n), esc(ns), esc(ln)), Res.ok(('v', v.id))
        if op == 'crg':
            doc = self.doc(a); v = dm.Range(w, doc)
            return 'crg\t%s' % I(doc), Res.ok(('v', v.id))
        if op in ('rss', 'rse', 'rsb', 'rsa', 'reb', 'rea', 'rcol', 'rsel', 'rselc', 'rcmp', 'rcr', 'rts', 'rdet'):
            r = self.pick(self.views('R'), a)
            if r is None: return None
            if op in ('rss', 'rse'):
                sel, idx = b % 4, b // 4
                n = self.node_in_doc(r.doc, idx, (TX, CD, CM, EL) if sel < 2 else None)
                if n is None: return None
                off = self.gen_offset(c, dm.clen(n), slack=2)
                return '%s\t%d\t%s\t%d' % (op, r.id, I(n), off), r.setPoint('s' if op == 'rss' else 'e', n, off)
            if op in ('rsb', 'rsa', 'reb', 'rea', 'rsel', 'rselc'):
                n = self.node_in_doc(r.doc, b)
                if n is None: return None
                if op == 'rsel':
                    # known finding: selectNode on character data / PI selects the node's *contents*
                    self.excl_check('C14-range-selectNode-chardata', n.t in (TX, CD, CM, PI) and not r.detached and n.parent is not None and not r._bad_type(n))
                    return 'rsel\t%d\t%s' % (r.id, I(n)), r.selectNode(n)
                if op == 'rselc': return 'rselc\t%d\t%s' % (r.id, I(n)), r.selectNodeContents(n)
                return '%s\t%d\t%s' % (op, r.id, I(n)), r.setRel('s' if op[1] == 's' else 'e', op[2] == 'a', n)
            if op == 'rcol': return 'rcol\t%d\t%d' % (r.id, b % 2), r.collapse(b % 2 == 1)
            if op == 'rcmp':
                o = self.pick([x for x in self.views('R') if x.doc is r.doc], b)
                return 'rcmp\t%d\t%d\t%d' % (r.id, c % 4, o.id), r.compareBoundaryPoints(c % 4, o)
            if op == 'rcr': return 'rcr\t%d' % r.id, r.cloneRange()
            if op == 'rts':
                # known finding: toString() also returns the data of comments and processing instructions in the range
                self.excl_check('C14-range-toString-comment-pi', (not r.detached) and r.touches_types((CM, PI)))
                return 'rts\t%d' % r.id, r.toString()
            if op == 'rdet': return 'rdet\t%d' % r.id, r.detach()
        if op.startswith('tw'):
            v = self.pick(self.views('W'), a)
            if v is None: return None
            m = op[2:]
            if m == 'sc':
                n = self.node_in_doc(v.doc, b)
                if n is None: return None
                return 'twsc\t%d\t%s' % (v.id, I(n)), v.setCurrentNode(n)
            f = {'pa': v.parentNode, 'fc': v.firstChild, 'lc': v.lastChild, 'ps': v.previousSibling, 'ns': v.nextSibling, 'pn': v.previousNode, 'nn': v.nextNode}[m]
            return '%s\t%d' % (op, v.id), f()
        return None

    def view_prelude(self, kind):
        """a few views created up front so that the mutations of the history happen while they are alive"""
        w = self.w
        if kind == 0: return
        for d in (w.docs if kind == 3 else [w.docs[0]]):
            root = next((c for c in d.children if c.t == EL), d)
            it = dm.NodeIter(w, d, root, dm.SHOW_ALL, None, True)
            self.emit(('cit\t%d\t%d\t%d\t-\t1' % (d.id, root.id, dm.SHOW_ALL), Res.ok(('v', it.id))))
            self.emit(('itn\t%d' % it.id, it.nextNode()))
            if kind >= 2:
                for _ in range(5 if kind == 2 else 9): self.emit(('itn\t%d' % it.id, it.nextNode()))
                self.emit(('itp\t%d' % it.id, it.previousNode()))
                if kind == 3: self.emit(('itp\t%d' % it.id, it.previousNode()))
            l = dm.TagList(w, d, False, None, '*')
            self.emit(('gebt\t%d\t*' % d.id, Res.ok(('v', l.id))))
            r = dm.Range(w, d)
            self.emit(('crg\t%d' % d.id, Res.ok(('v', r.id))))
            tx = [n for n in w.nodes if not n.dead and n.t == TX and dm.doc_of(n) is d and dm.root_of(n) is d]
            if tx:
                t = tx[0]; o = len(t.value) // 2
                self.emit(('rss\t%d\t%d\t%d' % (r.id, t.id, o), r.setPoint('s', t, o)))
                t2 = tx[-1]
                self.emit(('rse\t%d\t%d\t%d' % (r.id, t2.id, len(t2.value)), r.setPoint('e', t2, len(t2.value))))
            elif root is not d:
                self.emit(('rselc\t%d\t%d' % (r.id, root.id), r.selectNodeContents(root)))

def _virgin_ok(w, hist, p, removed):
    return not any(hist.virgin_iterators(dm.doc_of(x)) for x in removed)
dm.World.virgin_ok = _virgin_ok
