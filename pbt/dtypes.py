"""dtypes.py -- M4: reference model of the XML Schema Part 2 (2nd edition) datatypes used by C09.

Per type: lexical recogniser + value mapping into exact Python domains (Decimal / int / exact binary rounding with Fraction /
date-time 7-tuples), order relation (2 = indeterminate, 3 = "not equal" for unordered types), whitespace facet, canonical form,
constraining facets.  Derivations: Restr / ListT / UnionT.

Three-valued recogniser: parse() returns a value, raises Invalid (not in the lexical/value space in every edition) or raises
Unsure(cls) where editions/errata of the spec disagree or are silent (R2) -- such cases are dropped and counted, never asserted.
"""
import re, struct, base64 as _b64
from decimal import Decimal
from fractions import Fraction

class Invalid(Exception): pass
class Unsure(Exception):
    def __init__(self, cls): Exception.__init__(self, cls); self.cls = cls

LT, EQ, GT, INDET, NE = -1, 0, 1, 2, 3
KNOWN_OFF = False       # True while replaying the witness of a known finding: known-finding classes are then asserted, not skipped

# ------------------------------------------------------------------------------------------------
# whitespace
# ------------------------------------------------------------------------------------------------
def ws_process(s, mode):
    if mode == 'preserve': return s
    s = s.replace('\t', ' ').replace('\n', ' ').replace('\r', ' ')
    if mode == 'replace': return s
    return ' '.join(x for x in s.split(' ') if x)

WSCODE = {'preserve': 0, 'replace': 1, 'collapse': 2}

# ------------------------------------------------------------------------------------------------
# decimal and integers
# ------------------------------------------------------------------------------------------------
RE_DECIMAL = re.compile(r'[+-]?(?:[0-9]+(?:\.[0-9]*)?|\.[0-9]+)\Z')
RE_INTEGER = re.compile(r'[+-]?[0-9]+\Z')

INT_RANGES = {
    'integer': (None, None), 'nonPositiveInteger': (None, 0), 'negativeInteger': (None, -1),
    'long': (-2**63, 2**63 - 1), 'int': (-2**31, 2**31 - 1), 'short': (-2**15, 2**15 - 1), 'byte': (-128, 127),
    'nonNegativeInteger': (0, None), 'unsignedLong': (0, 2**64 - 1), 'unsignedInt': (0, 2**32 - 1),
    'unsignedShort': (0, 65535), 'unsignedByte': (0, 255), 'positiveInteger': (1, None),
}
INT_BASE = {'integer': 'decimal', 'nonPositiveInteger': 'integer', 'negativeInteger': 'nonPositiveInteger', 'long': 'integer', 'int': 'long',
            'short': 'int', 'byte': 'short', 'nonNegativeInteger': 'integer', 'unsignedLong': 'nonNegativeInteger',
            'unsignedInt': 'unsignedLong', 'unsignedShort': 'unsignedInt', 'unsignedByte': 'unsignedShort', 'positiveInteger': 'nonNegativeInteger'}
SIGN_RESTRICTED = {'nonPositiveInteger', 'negativeInteger', 'nonNegativeInteger', 'unsignedLong', 'unsignedInt', 'unsignedShort',
                   'unsignedByte', 'positiveInteger'}

def parse_decimal(s):
    if not RE_DECIMAL.match(s): raise Invalid('decimal lexical')
    return Decimal(s)

def parse_integer(tname, s):
    if not RE_INTEGER.match(s): raise Invalid('integer lexical')
    v = int(s)
    if tname in SIGN_RESTRICTED and v == 0 and s[0] in '+-':
        # "-0" for unsigned/nonNegative, "+0" for nonPositive: the editions word the sign rule differently
        raise Unsure('signed-zero-in-sign-restricted-integer')
    if tname in ('unsignedLong', 'unsignedInt', 'unsignedShort', 'unsignedByte') and s[0] == '+':
        raise Unsure('plus-sign-on-unsigned')       # 1st ed.: "a finite-length sequence of decimal digits"; 2nd ed.: optional sign
    lo, hi = INT_RANGES[tname]
    if (lo is not None and v < lo) or (hi is not None and v > hi): raise Invalid('integer range')
    return Decimal(v)

def _norm(v):
    """(sign, digits, exp) with trailing zero digits moved into the exponent -- exact, independent of the decimal context"""
    sign, digits, exp = v.as_tuple()
    digits = list(digits)
    while len(digits) > 1 and digits[-1] == 0: digits.pop(); exp += 1
    while len(digits) > 1 and digits[0] == 0: digits.pop(0)
    return sign, tuple(digits), exp

def dec_digits(v):
    """(totalDigits, fractionDigits, unsure_lo) of a Decimal value per 2nd ed. 4.3.11/4.3.12 (erratum E2-44):
    v = i * 10^-n with minimal n; totalDigits = max(len(|i|), n); older wording gives len(|i|): when they differ the facet
    values in between are version-dependent."""
    if v == 0: return 1, 0, 1
    sign, digits, exp = _norm(v)
    n = max(0, -exp)
    ilen = len(digits) + (exp if exp > 0 else 0)
    return max(ilen, n), n, ilen

def canon_decimal(v):
    if v == 0: return '0.0'
    sign, digits, exp = _norm(v)
    ds = ''.join(map(str, digits))
    if exp >= 0: ip, fp = ds + '0' * exp, '0'
    elif -exp >= len(ds): ip, fp = '0', '0' * (-exp - len(ds)) + ds
    else: ip, fp = ds[:exp], ds[exp:]
    return ('-' if sign else '') + ip + '.' + fp

def canon_integer(v):
    return str(int(v))

# ------------------------------------------------------------------------------------------------
# float / double
# ------------------------------------------------------------------------------------------------
RE_FLOAT = re.compile(r'(?:[+-]?(?:[0-9]+(?:\.[0-9]*)?|\.[0-9]+)(?:[eE][+-]?[0-9]+)?|-?INF|NaN)\Z')
FPAR = {'float': (24, -149, 104), 'double': (53, -1074, 971)}   # value = m * 2^e, |m| < 2^p, emin <= e <= emax

def round_binary(fr, p, emin):
    """round a positive Fraction to the nearest m*2^e (|m|<2^p, e>=emin), ties to even; no overflow handling -> Fraction"""
    if fr == 0: return Fraction(0)
    # find e such that 2^(p-1) <= fr / 2^e < 2^p
    n, d = fr.numerator, fr.denominator
    e = n.bit_length() - d.bit_length() - p
    while fr >= Fraction(2) ** (e + p): e += 1
    while fr < Fraction(2) ** (e + p - 1): e -= 1
    if e < emin: e = emin
    q = fr / Fraction(2) ** e
    m = q.numerator // q.denominator
    rem = q - m
    if rem > Fraction(1, 2) or (rem == Fraction(1, 2) and (m & 1)): m += 1
    return Fraction(m) * Fraction(2) ** e

class FV:
    """float/double value: kind in 'nan','inf','-inf','num'; num carries exact Fraction + sign of zero"""
    __slots__ = ('kind', 'fr', 'neg', 'clamped', 'd53')
    def __init__(self, kind, fr=None, neg=False, clamped=False, d53=None): self.kind = kind; self.fr = fr; self.neg = neg; self.clamped = clamped; self.d53 = d53
    def key(self): return (self.kind, self.fr, self.neg if self.fr == 0 else None)
    def __repr__(self): return 'FV(%s,%s,%s)' % (self.kind, self.fr, self.neg)

def parse_float(tname, s):
    if s == '+INF': raise Unsure('+INF')                      # not in 1.0, allowed by 1.1
    if not RE_FLOAT.match(s): raise Invalid('float lexical')
    if s == 'NaN': return FV('nan')
    if s == 'INF': return FV('inf')
    if s == '-INF': return FV('-inf')
    p, emin, emax = FPAR[tname]
    neg = s[0] == '-'
    m = re.match(r'[+-]?([0-9]*)(?:\.([0-9]*))?(?:[eE]([+-]?[0-9]+))?\Z', s)
    ip, fp, ex = m.group(1) or '', m.group(2) or '', int(m.group(3) or '0')
    if abs(ex) > 100000: raise Unsure('float-exponent-huge')
    mant = int((ip + fp) or '0')
    fr = Fraction(mant) * (Fraction(10) ** (ex - len(fp)))
    if fr == 0: return FV('num', Fraction(0), neg)
    maxfin = Fraction(2 ** p - 1) * Fraction(2) ** emax
    if tname == 'float':
        # documented conversion (doc/schema.xml): |x| < 2^-149 -> +-0 ; |x| > 2^24*2^104 -> +-INF ; otherwise the value is kept
        d53 = round_binary(fr, 53, -1074)          # the documented thresholds are applied to the strtod() result
        if (fr < Fraction(2) ** -149) != (d53 < Fraction(2) ** -149) or (fr > Fraction(2) ** 128) != (d53 > Fraction(2) ** 128):
            raise Unsure('float-threshold-within-double-rounding')
        if fr < Fraction(2) ** -149: return FV('num', Fraction(0), neg, True)
        if fr > Fraction(2) ** 128: return FV('-inf' if neg else 'inf', clamped=True)
        if fr > maxfin: raise Unsure('float-between-FLT_MAX-and-2^128')
        direct = round_binary(fr, 24, -149)
        twice = round_binary(round_binary(fr, 53, -1074), 24, -149)
        if direct != twice: raise Unsure('float-double-rounding')
        if direct > maxfin: raise Unsure('float-rounds-to-overflow')
        return FV('num', direct, neg, d53=d53)
    # double: strtod; ERANGE overflow -> INF, underflow -> 0 (documented; threshold platform dependent -> stay clear of it)
    r = round_binary(fr, 53, -1074)
    if r > maxfin or fr >= Fraction(2) ** 1024:
        if fr > Fraction(10) ** 309: return FV('-inf' if neg else 'inf', clamped=True)
        raise Unsure('double-overflow-edge')
    if fr < Fraction(2) ** -1022:
        if fr < Fraction(10) ** -340: return FV('num', Fraction(0), neg, True)
        raise Unsure('double-subnormal-platform-dependent')
    w = Fraction(float(Fraction(mant) * (Fraction(10) ** (ex - len(fp)))))     # second witness: CPython's correctly rounded conversion
    if w != r: raise Unsure('double-witness-disagrees')
    return FV('num', r, neg)

def cmp_float(a, b):
    if a.kind == 'nan' or b.kind == 'nan':
        if a.kind == b.kind: return EQ
        raise Unsure('NaN-order')            # 1st ed.: NaN greater than everything; 2nd ed.: incomparable.  Only "not equal" is common.
    rank = {'-inf': -1, 'num': 0, 'inf': 1}
    if rank[a.kind] != rank[b.kind]: return LT if rank[a.kind] < rank[b.kind] else GT
    if a.kind != 'num': return EQ
    x = -a.fr if a.neg else a.fr; y = -b.fr if b.neg else b.fr
    if x == 0 and y == 0 and a.neg != b.neg: raise Unsure('signed-zero-order')
    if not KNOWN_OFF and x == y and a.d53 is not None and b.d53 is not None and (a.d53 != b.d53 or a.neg != b.neg) and x != 0:
        raise Unsure('known:C09-float-compared-as-double')     # finding: xs:float values are compared at double precision
    return LT if x < y else GT if x > y else EQ

RE_CANON_FLOAT = re.compile(r'(?:-?[1-9]\.(?:[0-9]*[1-9]|0)E(?:0|-?[1-9][0-9]*)|-?0\.0E0|INF|-INF|NaN)\Z')

def canon_float_from_literal(s):
    """canonical literal obtained by normalising the digits of a finite non-zero literal (no rounding involved)"""
    m = re.match(r'([+-]?)([0-9]*)(?:\.([0-9]*))?(?:[eE]([+-]?[0-9]+))?\Z', s)
    sg, ip, fp, ex = m.group(1), m.group(2) or '', m.group(3) or '', int(m.group(4) or '0')
    digs = (ip + fp); ex10 = ex - len(fp)
    st = digs.lstrip('0')
    if not st: return '0.0E0'
    t = st.rstrip('0'); ex10 += len(st) - len(t)
    e = ex10 + len(t) - 1
    return ('-' if sg == '-' else '') + t[0] + '.' + (t[1:] or '0') + 'E' + str(e)

def sig_digits(s):
    m = re.match(r'[+-]?([0-9]*)(?:\.([0-9]*))?', s)
    d = ((m.group(1) or '') + (m.group(2) or '')).lstrip('0').rstrip('0')
    return len(d)

# ------------------------------------------------------------------------------------------------
# date/time family
# ------------------------------------------------------------------------------------------------
def is_leap(y): return (y % 4 == 0 and y % 100 != 0) or y % 400 == 0
def month_len(y, m):
    if m == 2: return 29 if (y is None or is_leap(y)) else 28
    return 30 if m in (4, 6, 9, 11) else 31
def days_from_civil(y, m, d):
    y -= m <= 2
    era = y // 400                      # Python's // already floors
    yoe = y - era * 400
    doy = (153 * (m + (-3 if m > 2 else 9)) + 2) // 5 + d - 1
    doe = yoe * 365 + yoe // 4 - yoe // 100 + doy
    return era * 146097 + doe - 719468
def civil_from_days(z):
    z += 719468
    era = z // 146097
    doe = z - era * 146097
    yoe = (doe - doe // 1460 + doe // 36524 - doe // 146096) // 365
    y = yoe + era * 400
    doy = doe - (365 * yoe + yoe // 4 - yoe // 100)
    mp = (5 * doy + 2) // 153
    d = doy - (153 * mp + 2) // 5 + 1
    m = mp + (3 if mp < 10 else -9)
    return (y + (m <= 2), m, d)

YEAR = r'(-?)([0-9]{4,})'
TZ = r'(Z|[+-][0-9]{2}:[0-9]{2})?'
SEC = r'([0-9]{2})(?:\.([0-9]+))?'
RE_DT = {
    'dateTime': re.compile(YEAR + r'-([0-9]{2})-([0-9]{2})T([0-9]{2}):([0-9]{2}):' + SEC + TZ + r'\Z'),
    'date': re.compile(YEAR + r'-([0-9]{2})-([0-9]{2})' + TZ + r'\Z'),
    'time': re.compile(r'([0-9]{2}):([0-9]{2}):' + SEC + TZ + r'\Z'),
    'gYearMonth': re.compile(YEAR + r'-([0-9]{2})' + TZ + r'\Z'),
    'gYear': re.compile(YEAR + TZ + r'\Z'),
    'gMonthDay': re.compile(r'--([0-9]{2})-([0-9]{2})' + TZ + r'\Z'),
    'gDay': re.compile(r'---([0-9]{2})' + TZ + r'\Z'),
    'gMonth': re.compile(r'--([0-9]{2})' + TZ + r'\Z'),
}
DT_TYPES = list(RE_DT)

class DTV:
    """date/time value: fields as written (year None when absent ...), tz in minutes or None"""
    __slots__ = ('t', 'y', 'mo', 'd', 'h', 'mi', 's', 'tz')
    def __init__(self, t, y, mo, d, h, mi, s, tz): self.t = t; self.y = y; self.mo = mo; self.d = d; self.h = h; self.mi = mi; self.s = s; self.tz = tz
    def __repr__(self): return 'DTV(%s %s-%s-%sT%s:%s:%s tz=%s)' % (self.t, self.y, self.mo, self.d, self.h, self.mi, self.s, self.tz)

def _year(sign, digs):
    if len(digs) > 4 and digs[0] == '0': raise Invalid('year leading zero')
    y = int(digs)
    if y == 0: raise Unsure('year-0000')          # invalid in 1.0, valid in 1.1
    if len(digs) > 9: raise Unsure('year-beyond-int')   # implementations need only support a limited number of year digits
    return -y if sign else y
def _tz(z):
    if z is None or z == '': return None
    if z == 'Z': return 0
    hh, mm = int(z[1:3]), int(z[4:6])
    if hh > 14 or mm > 59 or (hh == 14 and mm != 0): raise Invalid('timezone range')
    v = hh * 60 + mm
    return -v if z[0] == '-' else v
def _time(h, mi, s, frac):
    h, mi, s = int(h), int(mi), int(s)
    if s == 60: raise Unsure('second-60')
    if h > 24 or mi > 59 or s > 59: raise Invalid('time range')
    sec = Decimal(str(s) + '.' + (frac or '0'))
    if h == 24 and (mi != 0 or sec != 0): raise Invalid('hour 24 only as 24:00:00')
    if frac is not None and len(frac) > 12: raise Unsure('fraction-precision')
    return h, mi, sec

def parse_datetime(t, s):
    m = RE_DT[t].match(s)
    if not m: raise Invalid(t + ' lexical')
    g = m.groups()
    y = mo = d = h = mi = sec = None
    if t == 'dateTime':
        y = _year(g[0], g[1]); mo, d = int(g[2]), int(g[3]); h, mi, sec = _time(g[4], g[5], g[6], g[7]); tz = _tz(g[8])
    elif t == 'date':
        y = _year(g[0], g[1]); mo, d = int(g[2]), int(g[3]); tz = _tz(g[4])
    elif t == 'time':
        h, mi, sec = _time(g[0], g[1], g[2], g[3]); tz = _tz(g[4])
    elif t == 'gYearMonth':
        y = _year(g[0], g[1]); mo = int(g[2]); tz = _tz(g[3])
    elif t == 'gYear':
        y = _year(g[0], g[1]); tz = _tz(g[2])
    elif t == 'gMonthDay':
        mo, d = int(g[0]), int(g[1]); tz = _tz(g[2])
    elif t == 'gDay':
        d = int(g[0]); tz = _tz(g[1])
    else:
        mo = int(g[0]); tz = _tz(g[1])
    if mo is not None and not (1 <= mo <= 12): raise Invalid('month range')
    if d is not None:
        if d < 1 or d > 31: raise Invalid('day range')
        if mo is not None:
            if y is not None and y < 0 and mo == 2 and d == 29:
                raise Unsure('leap-day-in-negative-year')       # which BCE years are leap depends on whether a year 0 exists
            if d > month_len(y, mo): raise Invalid('day beyond month length')
    return DTV(t, y, mo, d, h, mi, sec, tz)

def dt_instant(v, tz_override=None):
    """seconds on the timeline (Fraction).  date and the g-types are ordered by their *starting instants* (2nd ed. 3.2.9-3.2.14):
    missing low fields are 01 / 00:00:00; the recurring types live "in an arbitrary leap year" / "month that has 31 days" (1972-01)."""
    y = v.y if v.y is not None else 1972
    mo = v.mo if v.mo is not None else 1
    d = v.d if v.d is not None else 1
    h = v.h or 0; mi = v.mi or 0; s = v.s if v.s is not None else Decimal(0)
    ya = y if y > 0 else y + 1
    tz = v.tz if tz_override is None else tz_override
    return Fraction(days_from_civil(ya, mo, d)) * 86400 + h * 3600 + mi * 60 + Fraction(s) - (tz or 0) * 60

def _near_era_boundary(v):
    """zones where 1.0 (no year 0) and 1.1 (year 0) arithmetic differ: the step between -0001 and 0001, and February's end in BCE years"""
    if v.y is None: return False
    if v.y == -1 and v.mo == 12 and v.d in (30, 31, None): return True
    if v.y == -1 and v.mo is None: return True                                   # gYear -0001
    if v.y == 1 and (v.mo in (1, None)) and v.d in (1, 2, None): return True
    return v.y < 0 and ((v.mo == 2 and v.d in (28, None)) or (v.mo == 3 and v.d in (1, None)))

def cmp_datetime(a, b):
    t = a.t
    if t in ('gMonthDay', 'gDay', 'gMonth') and a.tz != b.tz:
        # recurring periods "in an arbitrary year/month": only sure while no starting instant is pushed out of that year/month
        for v in (a, b):
            first = (t == 'gMonthDay' and v.mo == 1 and v.d == 1) or (t == 'gDay' and v.d == 1) or (t == 'gMonth' and v.mo == 1)
            if first and (v.tz is None or v.tz > 0): raise Unsure('recurring-g-type-leaves-its-period')
            last = (t == 'gMonthDay' and v.mo == 12 and v.d == 31) or (t == 'gDay' and v.d == 31) or (t == 'gMonth' and v.mo == 12)
            if last and v.tz is None: raise Unsure('recurring-g-type-leaves-its-period')
        if t == 'gDay' and (a.d > 28 or b.d > 28): pass
    if t == 'time' and (a.tz is not None or b.tz is not None):
        # order is that of dateTime "using an arbitrary date": only sure when normalisation does not leave the day
        for v in (a, b):
            if v.tz is not None:
                loc = v.h * 3600 + v.mi * 60 + Fraction(v.s) - v.tz * 60
                if loc < 0 or loc >= 86400: raise Unsure('time-zone-crosses-midnight')
            if v.h == 24: raise Unsure('time-24-with-zone')
    if t == 'time' and (a.h == 24 or b.h == 24): raise Unsure('time-24-order')
    if (a.tz is not None or b.tz is not None) and (_near_era_boundary(a) or _near_era_boundary(b)): raise Unsure('negative-year-normalisation')
    if (a.y is not None and a.y < 0) != (b.y is not None and b.y < 0) and t in ('dateTime', 'date', 'gYearMonth', 'gYear'):
        return LT if (a.y < 0) else GT
    if (a.tz is None) == (b.tz is None):
        x, y = dt_instant(a), dt_instant(b)
        return LT if x < y else GT if x > y else EQ
    if a.tz is not None:        # P has a zone, Q has not
        p = dt_instant(a); lo = dt_instant(b, 14 * 60); hi = dt_instant(b, -14 * 60)
        if p < lo: return LT
        if p > hi: return GT
        return INDET
    q = dt_instant(b); lo = dt_instant(a, 14 * 60); hi = dt_instant(a, -14 * 60)
    if hi < q: return LT
    if lo > q: return GT
    return INDET

def _fmt_year(y):
    return ('-' if y < 0 else '') + '%04d' % abs(y)
def _fmt_sec(s):
    ip = int(s); fr = s - ip
    out = '%02d' % ip
    if fr != 0:
        f = format(fr, 'f').rstrip('0')
        out += '.' + f.split('.')[1]
    return out

def canon_datetime(v):
    """canonical literal for dateTime / time per 2nd ed. 3.2.7.2 / 3.2.8.2; None when the model does not define it"""
    if v.t == 'dateTime':
        if v.y < 0 and (v.tz or v.h == 24) and True:
            if _near_era_boundary(v): raise Unsure('negative-year-normalisation')
        secs = v.h * 3600 + v.mi * 60 - (v.tz or 0) * 60
        ya = v.y if v.y > 0 else v.y + 1
        days = days_from_civil(ya, v.mo, v.d)
        days += secs // 86400; secs %= 86400
        y, mo, d = civil_from_days(days)
        if (ya > 0) != (y > 0): raise Unsure('normalisation-crosses-era')
        if y <= 0: y -= 1
        return '%s-%02d-%02dT%02d:%02d:%s%s' % (_fmt_year(y), mo, d, secs // 3600, (secs // 60) % 60, _fmt_sec(v.s), 'Z' if v.tz is not None else '')
    if v.t == 'time':
        secs = (v.h * 3600 + v.mi * 60 - (v.tz or 0) * 60) % 86400
        return '%02d:%02d:%s%s' % (secs // 3600, (secs // 60) % 60, _fmt_sec(v.s), 'Z' if v.tz is not None else '')
    return None

# ------------------------------------------------------------------------------------------------
# duration
# ------------------------------------------------------------------------------------------------
RE_DUR = re.compile(r'(-?)P(?:([0-9]+)Y)?(?:([0-9]+)M)?(?:([0-9]+)D)?(?:(T)(?:([0-9]+)H)?(?:([0-9]+)M)?(?:([0-9]*)(?:(\.)([0-9]*))?S)?)?\Z')
def parse_duration(s):
    m = RE_DUR.match(s)
    if not m: raise Invalid('duration lexical')
    sg, Y, Mo, D, T, H, Mi, S, dot, F = m.groups()
    if S is not None:
        if S == '' and not F: raise Invalid('duration seconds without digits')
        if S == '' or (dot and not F): raise Unsure('duration-seconds-bare-point')     # 1st ed.: any unsigned decimal; 2nd ed.: [0-9]+(\.[0-9]+)?
        if not dot: F = None
    if Y is None and Mo is None and D is None and H is None and Mi is None and S is None: raise Invalid('duration without fields')
    if T and H is None and Mi is None and S is None: raise Invalid('duration T without time fields')
    for x in (Y, Mo, D, H, Mi, S):
        if x is not None and len(x) > 9: raise Unsure('duration-field-beyond-int')
    if F is not None and len(F) > 9: raise Unsure('fraction-precision')
    months = int(Y or 0) * 12 + int(Mo or 0)
    secs = Fraction(int(D or 0) * 86400 + int(H or 0) * 3600 + int(Mi or 0) * 60 + int(S or 0)) + (Fraction(int(F), 10 ** len(F)) if F else 0)
    if sg: months, secs = -months, -secs
    return (months, secs)

_DUR_REFS = [(1696, 9), (1697, 2), (1903, 3), (1903, 7)]
def _add_months(y, m, k):
    t = y * 12 + (m - 1) + k
    return t // 12, t % 12 + 1
def cmp_duration(a, b):
    res = set()
    for (y, m) in _DUR_REFS:
        xs = []
        for (mon, sec) in (a, b):
            yy, mm = _add_months(y, m, mon)
            xs.append(Fraction(days_from_civil(yy, mm, 1)) * 86400 + sec)       # all reference dates are the 1st: no day clamping
        res.add(LT if xs[0] < xs[1] else GT if xs[0] > xs[1] else EQ)
    if len(res) == 1: return res.pop()
    return INDET

# ------------------------------------------------------------------------------------------------
# binary
# ------------------------------------------------------------------------------------------------
RE_HEX = re.compile(r'(?:[0-9a-fA-F]{2})*\Z')
B64 = 'ABCDEFGHIJKLMNOPQRSTUVWXYZabcdefghijklmnopqrstuvwxyz0123456789+/'
RE_B64 = re.compile(r'(?:[A-Za-z0-9+/]{4})*(?:[A-Za-z0-9+/]{2}[AEIMQUYcgkosw048]=|[A-Za-z0-9+/][AQgw]==)?\Z')
def parse_hex(s):
    if not RE_HEX.match(s): raise Invalid('hexBinary lexical')
    return bytes.fromhex(s)
def parse_b64(s):
    # 2nd ed. 3.2.16.1: B64S ::= B64 #x20? -- after collapse every remaining single space follows a B64 character or '='
    t = s.replace(' ', '')
    if not RE_B64.match(t):
        if re.match(r'[A-Za-z0-9+/]*={0,2}\Z', t) and len(t) % 4 == 0 and t: raise Invalid('base64 non-zero pad bits')
        raise Invalid('base64Binary lexical')
    if len(t) > 76: raise Unsure('base64-line-length')          # 1st ed. referred to RFC 2045 lines of at most 76 characters
    v = _b64.b64decode(t)
    if _b64.b64encode(v).decode() != t: raise Unsure('base64-witness-disagrees')
    return v

# ------------------------------------------------------------------------------------------------
# strings, names
# ------------------------------------------------------------------------------------------------
def is_xml_char(c):
    o = ord(c)
    return o in (9, 10, 13) or 0x20 <= o <= 0xD7FF or 0xE000 <= o <= 0xFFFD or 0x10000 <= o <= 0x10FFFF
# name characters: ASCII + a few BMP characters that are name characters in the 4th AND 5th edition of XML 1.0;
# characters outside this list other than clear non-name punctuation make a case Unsure.
SAFE_START = set('ABCDEFGHIJKLMNOPQRSTUVWXYZabcdefghijklmnopqrstuvwxyz_') | set('éÀΩ中б')
SAFE_REST = SAFE_START | set('0123456789.-') | set('·')
NON_NAME = set(' \t\n\r!"#$%&\'()*+,/;<=>?@[\\]^`{|}~')
def _name_check(s, allow_colon, nmtoken=False):
    if s == '': raise Invalid('empty name')
    for i, c in enumerate(s):
        if c == ':':
            if not allow_colon: raise Invalid('colon in NCName')
            continue
        if c in NON_NAME: raise Invalid('non-name character')
        if c not in SAFE_REST: raise Unsure('name-character-outside-intersection')
        if i == 0 and not nmtoken and c not in SAFE_START: raise Invalid('bad name start')
RE_LANG = re.compile(r'[a-zA-Z]{1,8}(?:-[a-zA-Z0-9]{1,8})*\Z')

def parse_stringish(tname, s):
    for c in s:
        if not is_xml_char(c): raise Unsure('non-xml-char')
    if tname in ('string', 'normalizedString', 'token'): return s
    if tname == 'language':
        if not RE_LANG.match(s): raise Invalid('language')
        return s
    if tname == 'NMTOKEN': _name_check(s, True, True); return s
    if tname == 'Name': _name_check(s, True); return s
    if tname in ('NCName', 'ID', 'IDREF', 'ENTITY'): _name_check(s, False); return s
    raise KeyError(tname)

# ------------------------------------------------------------------------------------------------
# type table
# ------------------------------------------------------------------------------------------------
PRIM = {}      # builtin name -> primitive kind
WS = {}        # builtin name -> whitespace facet
for n in INT_RANGES: PRIM[n] = 'decimal'; WS[n] = 'collapse'
PRIM['decimal'] = 'decimal'; WS['decimal'] = 'collapse'
for n in ('boolean', 'float', 'double', 'duration', 'hexBinary', 'base64Binary') + tuple(DT_TYPES): PRIM[n] = n; WS[n] = 'collapse'
for n in ('string', 'normalizedString', 'token', 'language', 'NMTOKEN', 'Name', 'NCName'): PRIM[n] = 'string'; WS[n] = 'collapse'
WS['string'] = 'preserve'; WS['normalizedString'] = 'replace'
STRING_CHAIN = {'normalizedString': 'string', 'token': 'normalizedString', 'language': 'token', 'NMTOKEN': 'token', 'Name': 'token', 'NCName': 'Name'}
BUILTIN_LISTS = {'NMTOKENS': 'NMTOKEN'}

def parse_builtin(tname, s):
    """s is the whitespace-processed literal"""
    k = PRIM[tname]
    if tname == 'decimal': return parse_decimal(s)
    if k == 'decimal': return parse_integer(tname, s)
    if k == 'boolean':
        if s in ('true', '1'): return True
        if s in ('false', '0'): return False
        raise Invalid('boolean')
    if k in ('float', 'double'): return parse_float(k, s)
    if k in RE_DT: return parse_datetime(k, s)
    if k == 'duration': return parse_duration(s)
    if k == 'hexBinary': return parse_hex(s)
    if k == 'base64Binary': return parse_b64(s)
    if k == 'string': return parse_stringish(tname, s)
    raise KeyError(tname)

def compare_values(kind, a, b):
    """kind: primitive kind.  -> LT/EQ/GT/INDET, or EQ/NE for unordered kinds; may raise Unsure"""
    if kind == 'decimal':
        r = LT if a < b else GT if a > b else EQ
        fa, fb = Fraction(a), Fraction(b)                           # second witness
        w = LT if fa < fb else GT if fa > fb else EQ
        if r != w: raise Unsure('decimal-witness-disagrees')
        return r
    if kind in ('float', 'double'): return cmp_float(a, b)
    if kind in RE_DT: return cmp_datetime(a, b)
    if kind == 'duration': return cmp_duration(a, b)
    return EQ if a == b else NE

def equal_values(kind, a, b):
    """value-space equality as used by enumeration; may raise Unsure"""
    if kind in ('float', 'double'):
        if a.kind == 'nan' or b.kind == 'nan': return a.kind == b.kind
    r = compare_values(kind, a, b)
    return r == EQ

def canonical(tname, v, lit=None):
    """the model's canonical literal or None when not asserted"""
    k = PRIM[tname]
    if tname == 'decimal': return canon_decimal(v)
    if k == 'decimal':
        if tname == 'nonPositiveInteger' and v == 0: return None     # 1st ed.: "-0", 2nd ed.: "0"
        return canon_integer(v)
    if k == 'boolean': return 'true' if v else 'false'
    if k in ('float', 'double'):
        if v.kind == 'nan': return 'NaN'
        if v.kind in ('inf', '-inf'): return 'INF' if v.kind == 'inf' else '-INF'
        if v.fr == 0: return None if v.neg else '0.0E0'
        if lit is not None and sig_digits(lit) <= (6 if k == 'float' else 15): return canon_float_from_literal(lit)
        return None
    if k in ('dateTime', 'time'): return canon_datetime(v)
    if k == 'hexBinary': return v.hex().upper()
    if k == 'base64Binary': return _b64.b64encode(v).decode()
    return None

def value_length(kind, v):
    if kind in ('hexBinary', 'base64Binary'): return len(v)
    if kind == 'string': return len(v)       # characters (code points)
    return None

# ------------------------------------------------------------------------------------------------
# derived types
# ------------------------------------------------------------------------------------------------
class Restr:
    def __init__(self, name, base, facets=None, enums=None): self.name = name; self.base = base; self.facets = facets or {}; self.enums = enums or []
class ListT:
    def __init__(self, name, item): self.name = name; self.item = item
class UnionT:
    def __init__(self, name, members): self.name = name; self.members = members

def variety(t):
    if isinstance(t, str): return 'list' if t in BUILTIN_LISTS else 'atomic'
    if isinstance(t, ListT): return 'list'
    if isinstance(t, UnionT): return 'union'
    return variety(t.base)
def root_builtin(t):
    while not isinstance(t, str): t = t.base
    return t
def ws_of(t):
    if isinstance(t, str): return 'collapse' if t in BUILTIN_LISTS else WS[t]
    if isinstance(t, ListT): return 'collapse'
    if isinstance(t, UnionT): return 'collapse'
    if 'whiteSpace' in t.facets: return t.facets['whiteSpace']
    return ws_of(t.base)
def tname(t): return t if isinstance(t, str) else t.name

class Val:
    """validated value: ('atomic', kind, v, builtin) | ('list', [Val...])"""
    __slots__ = ('var', 'kind', 'v', 'items', 'builtin', 'lit')
    def __init__(self, var, kind=None, v=None, items=None, builtin=None, lit=None): self.var = var; self.kind = kind; self.v = v; self.items = items; self.builtin = builtin; self.lit = lit

def val_equal(a, b):
    if a.var != b.var: return False
    if a.var == 'list':
        return len(a.items) == len(b.items) and all(val_equal(x, y) for x, y in zip(a.items, b.items))
    if a.kind != b.kind: return False
    return equal_values(a.kind, a.v, b.v)

def evaluate(t, raw, pattern_match=None):
    """-> Val ; raises Invalid / Unsure.  raw = the literal before whitespace processing."""
    s = ws_process(raw, ws_of(t))
    return _eval(t, s, pattern_match)

def _eval(t, s, pm):
    if isinstance(t, str):
        if t in BUILTIN_LISTS:
            items = [_eval(BUILTIN_LISTS[t], x, pm) for x in s.split(' ') if x]
            if not items: raise Invalid('empty list for ' + t)
            return Val('list', items=items)
        return Val('atomic', PRIM[t], parse_builtin(t, s), builtin=t, lit=s)
    if isinstance(t, ListT):
        return Val('list', items=[_eval(t.item, ws_process(x, ws_of(t.item)), pm) for x in s.split(' ') if x])
    if isinstance(t, UnionT):
        unsure = None
        for m in t.members:
            try:
                return _eval(m, ws_process(s, ws_of(m)), pm)
            except Invalid: continue
            except Unsure as u: unsure = u; break      # an unsure member may or may not capture the literal
        if unsure: raise unsure
        raise Invalid('no union member accepts')
    v = _eval(t.base, s, pm)
    check_facets(t, v, s, pm)
    return v

def check_facets(t, v, s, pm):
    f = t.facets
    if 'pattern' in f:
        import re as _re
        ok = (pm or (lambda p, x: _re.fullmatch(p, x) is not None))(f['pattern'], s)
        if not ok: raise Invalid('pattern')
    if v.var == 'list': ln = len(v.items)
    elif v.var == 'atomic': ln = value_length(v.kind, v.v)
    for k in ('length', 'minLength', 'maxLength'):
        if k in f:
            if ln is None: raise Unsure('length-on-unsupported-kind')
            n = int(f[k])
            if (k == 'length' and ln != n) or (k == 'minLength' and ln < n) or (k == 'maxLength' and ln > n): raise Invalid(k)
    if v.var == 'atomic':
        rb = root_builtin(t)
        for k in ('minInclusive', 'minExclusive', 'maxInclusive', 'maxExclusive'):
            if k in f:
                b = parse_builtin(rb, ws_process(f[k], 'collapse'))
                c = compare_values(v.kind, v.v, b)
                ok = {'minInclusive': c in (GT, EQ), 'minExclusive': c == GT, 'maxInclusive': c in (LT, EQ), 'maxExclusive': c == LT}[k]
                if not ok: raise Invalid(k)
        if 'totalDigits' in f or 'fractionDigits' in f:
            td, fd, lo = dec_digits(v.v)
            if 'totalDigits' in f:
                n = int(f['totalDigits'])
                if lo <= n < td: raise Unsure('totalDigits-leading-fraction-zeros')
                if td > n: raise Invalid('totalDigits')
            if 'fractionDigits' in f and fd > int(f['fractionDigits']): raise Invalid('fractionDigits')
    if t.enums:
        hit = False
        for e in t.enums:
            ev = evaluate(t.base, e)
            if val_equal(v, ev): hit = True; break
        if not hit: raise Invalid('enumeration')

def verdict(t, raw, pm=None):
    """-> (True, Val) | (False, reason) | (None, unsure-class)"""
    try:
        return True, evaluate(t, raw, pm)
    except Invalid as e: return False, str(e)
    except Unsure as u: return None, u.cls

def type_lines(types):
    """serialise derived type definitions for the dtv executor request (escaped by the caller)"""
    out = []
    for t in types:
        if isinstance(t, Restr):
            row = [t.name, 'R', tname(t.base)] + [('f:%s=' % k, v) for k, v in t.facets.items()] + [('e:', e) for e in t.enums]
        elif isinstance(t, ListT): row = [t.name, 'L', tname(t.item)]
        else: row = [t.name, 'U'] + [tname(m) for m in t.members]
        out.append(row)
    return out

def xsd_of(types, xs='xs'):
    """render derived types as named xs:simpleType definitions"""
    def q(t): return (xs + ':' + t) if isinstance(t, str) else t.name
    def esc(v): return (v.replace('&', '&amp;').replace('<', '&lt;').replace('"', '&quot;').replace('\t', '&#9;').replace('\n', '&#10;').replace('\r', '&#13;'))
    out = []
    for t in types:
        if isinstance(t, Restr):
            body = ''.join('<%s:%s value="%s"/>' % (xs, k, esc(v)) for k, v in t.facets.items()) + ''.join('<%s:enumeration value="%s"/>' % (xs, esc(e)) for e in t.enums)
            out.append('<%s:simpleType name="%s"><%s:restriction base="%s">%s</%s:restriction></%s:simpleType>' % (xs, t.name, xs, q(t.base), body, xs, xs))
        elif isinstance(t, ListT):
            out.append('<%s:simpleType name="%s"><%s:list itemType="%s"/></%s:simpleType>' % (xs, t.name, xs, q(t.item), xs))
        else:
            out.append('<%s:simpleType name="%s"><%s:union memberTypes="%s"/></%s:simpleType>' % (xs, t.name, xs, ' '.join(q(m) for m in t.members), xs))
    return '\n'.join(out)

# ================================================================================================
# generators (Hypothesis strategies).  Every strategy yields (literal, labels) where literal is the *whitespace-processed*
# form unless stated otherwise and labels say which boundary / near-miss rule produced it.  Validity is never decided by the
# generator: the recogniser above is the oracle.
# ================================================================================================
from hypothesis import strategies as st

def _lab(s, *labels): return s.map(lambda x: (x, list(labels)))
digits = lambda lo, hi: st.text('0123456789', min_size=lo, max_size=hi)

def _int_boundaries(tn):
    lo, hi = INT_RANGES[tn]
    vals = [0, 1, -1, 9, 10, -10, 99, 100, 127, 128, -128, -129, 255, 256, 32767, 32768, -32768, -32769, 65535, 65536,
            2**31 - 1, 2**31, -2**31, -2**31 - 1, 2**32 - 1, 2**32, 2**63 - 1, 2**63, -2**63, -2**63 - 1, 2**64 - 1, 2**64, 10**19, 10**20, -10**20, 10**40]
    for b in (lo, hi):
        if b is not None: vals += [b, b - 1, b + 1]
    return vals

@st.composite
def gen_integer(draw, tn):
    kind = draw(st.sampled_from(['bd', 'bd', 'bd', 'rnd', 'big', 'nm']))
    if kind == 'nm': return draw(gen_numeric_nearmiss())
    if kind == 'bd': v = draw(st.sampled_from(_int_boundaries(tn))); labels = ['bd:int-range']
    elif kind == 'rnd': v = draw(st.integers(-70000, 70000)); labels = ['plain']
    else: v = int(draw(digits(15, 45)) or '0') * draw(st.sampled_from([1, -1])); labels = ['bd:big-numeral']
    s = str(abs(v))
    z = draw(st.sampled_from(['', '', '0', '000', '0' * 20]))
    if z: labels.append('bd:leading-zeros')
    sign = '-' if v < 0 else draw(st.sampled_from(['', '', '+']))
    if v == 0: sign = draw(st.sampled_from(['', '', '+', '-']))
    if sign == '+' or (v == 0 and sign): labels.append('bd:sign')
    return sign + z + s, labels

@st.composite
def gen_numeric_nearmiss(draw):
    s = draw(st.sampled_from(['.', '+', '-', '+.', '-.', '1.2.3', '1..2', '1e5', '1E0', '1,5', '1 2', '--1', '+-1', '-+1', '1-', '1+', '0x10', '', 'a', '1a',
                              '１', '٣', '1.', '.1', '1.0', '+1.', '-.0', '1_0', "1'0", '1 0', ' 1', 'NaN', 'INF', '-', '0.', '+0.0', '1.50']))
    return s, ['nm:numeric']

@st.composite
def gen_decimal(draw):
    kind = draw(st.sampled_from(['form', 'form', 'form', 'int', 'nm']))
    if kind == 'nm': return draw(gen_numeric_nearmiss())
    if kind == 'int': return draw(gen_integer('integer'))
    ip = draw(st.sampled_from(['', '0', '00', '1', '9', '10', '99', '100', '123', '999999999', '1' + '0' * 30])) if draw(st.booleans()) else draw(digits(0, 30))
    fp = draw(st.sampled_from(['', '0', '00', '5', '50', '05', '001', '999', '1' * 20, '0' * 19 + '1'])) if draw(st.booleans()) else draw(digits(0, 30))
    dot = draw(st.sampled_from(['.', '.', '.', '']))
    sign = draw(st.sampled_from(['', '', '+', '-']))
    labels = []
    if ip == '' or (fp == '' and dot): labels.append('bd:bare-point')
    if ip.startswith('0') and len(ip) > 1: labels.append('bd:leading-zeros')
    if fp.endswith('0'): labels.append('bd:trailing-zeros')
    if sign: labels.append('bd:sign')
    if len(ip) + len(fp) > 20: labels.append('bd:big-numeral')
    return sign + ip + (dot + fp if dot else ''), labels or ['plain']

FLOAT_EDGE = {
    'float': ['3.4028234e38', '3.4028235e38', '3.4028236e38', '3.5e38', '1e39', '-1e39', '1e-46', '-1e-46', '1.4e-45', '1.5e-45', '1.17549435e-38', '1e-40', '16777216', '16777217',
              '16777218', '16777219', '0.1', '1e38', '3.4e38', '340282346638528859811704183484516925440', '340282366920938463463374607431768211456', '340282366920938463463374607431768211457',
              '1.401298464324817e-45', '1.401298464324818e-45', '0.000000000000000000000000000000000000000000001', '1.00000006', '1.00000012', '9999999', '99999999'],
    'double': ['1.7976931348623157e308', '1.7976931348623158e308', '1.8e308', '1e309', '1e310', '-1e310', '1e400', '1e-400', '-1e-400', '4.9e-324', '2.2250738585072014e-308', '2.2250738585072011e-308',
               '1e-320', '9007199254740992', '9007199254740993', '9007199254740994', '0.1', '0.30000000000000004', '1e308', '1e-307', '123456789012345678901234567890', '1.0000000000000002', '1e22', '1e23'],
}
@st.composite
def gen_float(draw, tn):
    kind = draw(st.sampled_from(['edge', 'edge', 'form', 'form', 'special', 'nm']))
    if kind == 'special':
        return draw(st.sampled_from(['INF', '-INF', 'NaN', '0', '-0', '+0', '0.0', '-0.0E0', '0e0', '-0e5', '+0.0e-5'])), ['bd:special']
    if kind == 'nm':
        if draw(st.booleans()): return draw(gen_numeric_nearmiss())
        return draw(st.sampled_from(['+INF', 'inf', 'Inf', '-inf', 'nan', 'NAN', '+NaN', '-NaN', 'Infinity', 'INFINITY', '1e', 'e5', '1e+', '1e-', '1.e5', '.e5', '1e5.0', '1E 5', '1e5e5', '1ee5',
                                     '1d5', '1f', '1.0f', '0x1p3', '1e+-5', ' ', 'INF ', 'I NF', '-INFx', 'NaNN', '1E+05', '1E-0', '1e0005', '.5E1', '5.E1', '+.5e+1'])), ['nm:float']
    if kind == 'edge':
        s = draw(st.sampled_from(FLOAT_EDGE[tn]))
        sign = draw(st.sampled_from(['', '', '-', '+']))
        if s[0] == '-': sign = ''
        e = draw(st.sampled_from(['e', 'E'])); s = s.replace('e', e)
        return sign + s, ['bd:float-range']
    ip = draw(digits(0, 12)); fp = draw(digits(0, 12)); dot = draw(st.sampled_from(['.', '.', '']))
    if draw(st.booleans()): ip = ip[:3]; fp = fp[:3]
    mant = ip + (dot + fp if dot else '')
    ex = ''
    if draw(st.booleans()):
        ex = draw(st.sampled_from(['e', 'E'])) + draw(st.sampled_from(['', '', '+', '-'])) + draw(st.sampled_from(['0', '1', '2', '5', '10', '37', '38', '39', '44', '45', '46', '007', '307', '308', '323', '324']))
    sign = draw(st.sampled_from(['', '', '+', '-']))
    labels = ['bd:exponent-form'] if ex else []
    if ip == '' or (fp == '' and dot): labels.append('bd:bare-point')
    return sign + mant + ex, labels or ['plain']

YEARS = ['0001', '0004', '0100', '0400', '1900', '1999', '2000', '2004', '2023', '2024', '2100', '9999', '10000', '12345', '-0001', '-0004', '-0400', '-2000', '0000', '-0000', '02000', '200', '+2000', '123456789', '20000']
MONTHS = ['01', '02', '02', '03', '04', '06', '09', '11', '12', '00', '13', '1', '99']
DAYS = ['01', '15', '28', '29', '30', '31', '00', '32', '1', '99']
HOURS = ['00', '01', '12', '23', '24', '25', '0', '99']
MINS = ['00', '30', '59', '60', '0', '99']
SECS = ['00', '30', '59', '60', '61', '0', '99']
FRACS = [None, None, None, '0', '000', '5', '50', '123', '001', '999', '123456789', '9999999999']
ZONES = ['', '', '', 'Z', 'Z', '+00:00', '-00:00', '+14:00', '-14:00', '+14:01', '+13:59', '-13:59', '+15:00', '+05:30', '-08:00', '+12:00', '-12:00', '-11:59', '+01:00', '-01:00', '+1:00', '+0100', 'z', '+24:00', '+00:60']
def _w(lst, good): return st.sampled_from(lst[:good] * 6 + lst)       # bias towards the valid prefix of each table

CARRY_BOUNDARIES = [(2002, 1, 1), (2000, 1, 1), (2001, 1, 1), (1970, 1, 1), (2100, 1, 1), (10000, 1, 1), (2, 1, 1), (2000, 3, 1), (2001, 3, 1), (2004, 3, 1), (1900, 3, 1),
                    (2100, 3, 1), (2000, 2, 29), (2001, 2, 1), (2001, 5, 1), (2001, 12, 1), (2001, 7, 1), (2001, 6, 15), (-4, 1, 1), (-100, 7, 1), (9999, 12, 31)]
CARRY_DELTAS = [-840, -839, -720, -600, -300, -90, -30, -1, 0, 0, 1, 30, 90, 300, 330, 600, 720, 839, 840]      # minutes from the boundary (local time)
CARRY_ZONES = [None, 0, 840, -840, 839, -839, 720, -720, 300, -300, 330, -330, 60, -60, 1, -1, 600, -600]

def fmt_zone(z):
    if z is None: return ''
    if z == 0: return 'Z'
    return '%s%02d:%02d' % ('-' if z < 0 else '+', abs(z) // 60, abs(z) % 60)

def carry_literal(t, boundary, delta, zone, frac=None, h24=False):
    """literal of type t whose local value lies `delta` minutes from 00:00 of `boundary` (astronomical-free: years as written, no year 0)"""
    y, mo, d = boundary
    ya = y if y > 0 else y + 1
    mins = delta
    days = days_from_civil(ya, mo, d) + mins // 1440; mins %= 1440
    yy, mm, dd = civil_from_days(days)
    if yy <= 0: yy -= 1
    hh, mi = mins // 60, mins % 60
    sec = '00' + ('.' + frac if frac else '')
    if h24 and hh == 0 and mi == 0 and not frac and t in ('dateTime', 'time'):
        yb, mb, db = civil_from_days(days - 1)
        if yb <= 0: yb -= 1
        if t == 'time' or (yb > 0) == (yy > 0): yy, mm, dd, hh = yb, mb, db, 24
    Y = ('-' if yy < 0 else '') + '%04d' % abs(yy)
    tm = '%02d:%02d:%s' % (hh, mi, sec)
    body = {'dateTime': '%s-%02d-%02dT%s' % (Y, mm, dd, tm), 'date': '%s-%02d-%02d' % (Y, mm, dd), 'time': tm, 'gYearMonth': '%s-%02d' % (Y, mm), 'gYear': Y,
            'gMonthDay': '--%02d-%02d' % (mm, dd), 'gDay': '---%02d' % dd, 'gMonth': '--%02d' % mm}[t]
    return body + fmt_zone(zone)

@st.composite
def gen_carry(draw, t, boundary=None):
    """values within 14 h of a day / month / year boundary combined with zone offsets of both signs: time-zone normalisation
    (and the +-14:00 window of the zoned/unzoned comparison) has to carry or borrow across the boundary"""
    b = boundary or draw(st.sampled_from(CARRY_BOUNDARIES + [x for x in CARRY_BOUNDARIES if x[1:] == (1, 1)] * 2))      # year starts weigh three times
    z = draw(st.sampled_from(CARRY_ZONES))
    if z and draw(st.booleans()):
        # force the crossing: zone < 0 -> local time up to |zone| before the boundary (UTC lands on/after it: carry forward);
        # zone > 0 -> local time less than zone after the boundary (UTC lands before it: borrow backward)
        delta = draw(st.sampled_from([-1, z // 2, z + 1, z])) if z < 0 else draw(st.sampled_from([0, z // 2, z - 1]))
    else:
        delta = draw(st.sampled_from(CARRY_DELTAS))
    if t not in ('dateTime', 'time'): delta = draw(st.sampled_from([-1440, -1, 0, 0, 0, 1439, 1440]))       # the day before / the boundary day / the day after
    frac = draw(st.sampled_from([None, None, None, '5', '999'])) if t in ('dateTime', 'time') else None
    lit = carry_literal(t, b, delta, z, frac, draw(st.integers(0, 5)) == 0)
    return lit, ['bd:zone-carry', 'bd:zone' if z else 'bd:zone-none']

@st.composite
def carry_group(draw, t, n=3):
    """n literals of type t around ONE boundary (zoned and unzoned mixed): pairs inside / at the edge of the +-14 h window"""
    b = draw(st.sampled_from(CARRY_BOUNDARIES))
    return [draw(gen_carry(t, b))[0] for _ in range(n)]

@st.composite
def gen_datetime(draw, t):
    if draw(st.integers(0, 3)) == 0: return draw(gen_carry(t))
    y = draw(_w(YEARS, 18)); mo = draw(_w(MONTHS, 9)); d = draw(_w(DAYS, 6)); h = draw(_w(HOURS, 5)); mi = draw(_w(MINS, 3)); s = draw(_w(SECS, 3))
    fr = draw(st.sampled_from(FRACS)); z = draw(_w(ZONES, 18))
    if h == '24' and draw(st.integers(0, 3)) != 0: mi, s = '00', '00'; fr = draw(st.sampled_from([None, '0', '000']))
    if mo == '02' and draw(st.booleans()):
        d = draw(st.sampled_from(['28', '29', '29', '30']))
        if draw(st.booleans()): y = draw(st.sampled_from(['1900', '2000', '2100', '0400', '2400', '1600', '0100', '2004', '2023', '10000', '12300']))    # century rule
    sec = s + ('.' + fr if fr is not None else '')
    tm = '%s:%s:%s' % (h, mi, sec)
    lit = {'dateTime': '%s-%s-%sT%s' % (y, mo, d, tm), 'date': '%s-%s-%s' % (y, mo, d), 'time': tm, 'gYearMonth': '%s-%s' % (y, mo), 'gYear': y,
           'gMonthDay': '--%s-%s' % (mo, d), 'gDay': '---' + d, 'gMonth': '--' + mo}[t] + z
    labels = []
    if mo == '02' and d in ('28', '29', '30'): labels.append('bd:february')
    if d in ('30', '31', '00', '32') or mo in ('00', '13'): labels.append('bd:month-day-range')
    if h in ('24', '25', '23') and t in ('dateTime', 'time'): labels.append('bd:hour')
    if z not in ('', 'Z'): labels.append('bd:zone')
    if y in ('9999', '10000', '12345', '-0001', '0001', '02000', '200', '20000', '123456789') and t in ('dateTime', 'date', 'gYearMonth', 'gYear'): labels.append('bd:year-digits')
    if fr is not None and t in ('dateTime', 'time'): labels.append('bd:fraction')
    k = draw(st.integers(0, 9))
    if k == 0 and lit:
        i = draw(st.integers(0, len(lit) - 1)); op = draw(st.sampled_from(['del', 'dup', 'rep']))
        rep = draw(st.sampled_from(['-', ':', 'T', 't', ' ', '.', '0', 'Z', '+', '/', 'x']))
        lit = lit[:i] + ({'del': '', 'dup': lit[i] * 2, 'rep': rep}[op]) + lit[i + 1:]
        labels.append('nm:char-mutation')
    return lit, labels or ['plain']

@st.composite
def gen_duration(draw):
    fld = lambda unit: draw(st.sampled_from(['', '', '', '', '1' + unit, '2' + unit, '0' + unit, '1' + unit, '12' + unit, '30' + unit, '31' + unit, '365' + unit, '366' + unit, '60' + unit, '24' + unit, '28' + unit, '59' + unit, '000' + unit, '-1' + unit, '1.5' + unit]))
    Y, Mo, D, H, Mi = fld('Y'), fld('M'), fld('D'), fld('H'), fld('M')
    S = draw(st.sampled_from(['', '', '0S', '1S', '59S', '60S', '1.5S', '0.001S', '1.S', '.5S', '86400S', '3600S']))
    T = 'T' if (H or Mi or S) else draw(st.sampled_from(['', '', 'T']))
    if draw(st.integers(0, 9)) == 0: T = ''
    sign = draw(st.sampled_from(['', '', '-', '+']))
    lit = sign + 'P' + Y + Mo + D + T + H + Mi + S
    if draw(st.integers(0, 9)) == 0: lit = draw(st.sampled_from(['P', 'PT', '-P', 'P1', '1Y', 'p1Y', 'P1y', 'P1YT', 'P1M1Y', 'PT1S1M', 'P1DT', 'P-1Y', 'P1Y ', 'P 1Y', 'PT1H1D', 'P1W', 'P0Y', 'PT0S', 'P1Y2M3DT4H5M6.7S', 'P12M', 'P1Y', 'P365D', 'P366D', 'P1M', 'P28D', 'P29D', 'P30D', 'P31D', 'PT24H', 'P1D', 'PT1440M', 'PT86400S', '-P1D', 'P0M']))
    return lit, ['bd:duration-fields']

@st.composite
def gen_hex(draw):
    b = draw(st.binary(max_size=12))
    s = b.hex()
    if draw(st.booleans()): s = ''.join(c.upper() if draw(st.booleans()) else c for c in s)
    labels = ['bd:hex-case'] if s != s.lower() else ['plain']
    k = draw(st.integers(0, 5))
    if k == 0:
        s = draw(st.sampled_from([s + '0', s + 'g', s + 'G', '0' + s, s[:-1], s[:len(s) // 2] + ' ' + s[len(s) // 2:], s + 'x0', '0x' + s, s + '=', s + '００'])); labels = ['nm:hex']
    return s, labels

@st.composite
def gen_b64(draw):
    b = draw(st.binary(max_size=draw(st.sampled_from([3, 8, 8, 20, 57, 60]))))
    s = _b64.b64encode(b).decode()
    labels = ['bd:b64-pad%d' % s.count('=')]
    k = draw(st.integers(0, 7))
    if k in (0, 1) and s:
        # legal embedded single spaces (B64S ::= B64 #x20?)
        pos = sorted(set(draw(st.lists(st.integers(1, len(s) - 1), max_size=4)))) if len(s) > 1 else []
        for p in reversed(pos): s = s[:p] + ' ' + s[p:]
        labels.append('bd:b64-embedded-space')
    elif k == 2 and s:
        i = draw(st.integers(0, len(s) - 1))
        muts = [s[:i] + s[i + 1:], s[:i] + '-' + s[i + 1:], s[:i] + '_' + s[i + 1:], s[:i] + '=' + s[i + 1:], s + '=', s + 'A', '=' + s, s.rstrip('='), s[:i] + s[i] * 2 + s[i + 1:], s + '====', s[:i] + 'é' + s[i + 1:]]
        if s.endswith('=='):
            muts += [s[:-3] + c + '==' for c in draw(st.lists(st.sampled_from(B64), min_size=6, max_size=6))] * 2           # pad bits: any 2nd character
        elif s.endswith('='):
            muts += [s[:-2] + c + '=' for c in draw(st.lists(st.sampled_from(B64), min_size=6, max_size=6))] * 2
        s = draw(st.sampled_from(muts)); labels = ['nm:b64']
    return s, labels

@st.composite
def gen_boolean(draw):
    s = draw(st.sampled_from(['true', 'false', '1', '0'] * 4 + ['TRUE', 'True', 'FALSE', 'tRue', '2', '00', '01', '10', 'yes', 'no', 't', 'f', 't rue', '-1', '+1', '1.0', '', 'truee', 'fals', '１', 'true1', 'true false']))
    return s, ['bd:boolean' if s in ('true', 'false', '1', '0') else 'nm:boolean']

STR_ALPHA = list('abcXYZ019 _-.:,') + [' ', ' ', '\t', '\n', '\r', 'é', '中', ' ', ' ', '&', '<', '"', "'"]
@st.composite
def gen_string(draw, tn):
    s = ''.join(draw(st.lists(st.sampled_from(STR_ALPHA), max_size=12)))
    labels = []
    if any(c in s for c in '\t\n\r'): labels.append('bd:ws-replace')
    if '  ' in ws_process(s, 'replace') or s[:1] in ' \t\n\r' or s[-1:] in ' \t\n\r': labels.append('bd:ws-collapse')
    return s, labels or ['plain']

NAME_ALPHA = list('abcXYZ_') * 2 + list('019.-:') + ['é', '中', '·', ' ', '!', '$', '/', '@', '×', '☃']
@st.composite
def gen_name(draw, tn):
    s = ''.join(draw(st.lists(st.sampled_from(NAME_ALPHA), min_size=0, max_size=8)))
    labels = []
    if s[:1] in tuple('019.-·'): labels.append('bd:name-start')
    if ':' in s: labels.append('bd:colon')
    if any(c in s for c in ' !$/@'): labels.append('nm:name-char')
    return s, labels or ['plain']

@st.composite
def gen_language(draw):
    if draw(st.integers(0, 3)) == 0:
        return draw(st.sampled_from(['', '-', 'en-', '-en', 'en--US', 'abcdefghi', 'en-abcdefghi', 'e1', '1en', 'en_US', 'en US', 'en-é', 'x-', 'i-', 'en-US-', 'a-b-c-d-e-f-g-1-2-3', 'abcdefgh-12345678', 'EN', 'x-klingon', 'i-default', 'a'])), ['nm:language']
    first = draw(st.text('abcxyzABC', min_size=1, max_size=9)); rest = draw(st.lists(st.text('abcXYZ019', min_size=0, max_size=9), max_size=3))
    s = '-'.join([first] + rest)
    return s, ['bd:language-subtag-length' if any(len(p) in (0, 8, 9) for p in [first] + rest) else 'plain']

def gen_literal(tn):
    """strategy for (processed-form literal, labels) of a builtin atomic type"""
    if tn == 'decimal': return gen_decimal()
    if tn in INT_RANGES: return gen_integer(tn)
    if tn in ('float', 'double'): return gen_float(tn)
    if tn in RE_DT: return gen_datetime(tn)
    if tn == 'duration': return gen_duration()
    if tn == 'hexBinary': return gen_hex()
    if tn == 'base64Binary': return gen_b64()
    if tn == 'boolean': return gen_boolean()
    if tn in ('string', 'normalizedString', 'token'): return gen_string(tn)
    if tn == 'language': return gen_language()
    if tn in ('NMTOKEN', 'Name', 'NCName'): return gen_name(tn)
    raise KeyError(tn)

WS_DECOR = ['', '', '', ' ', '  ', '\t', '\n', '\r', '\r\n', ' \n\t ']
@st.composite
def decorate_ws(draw, lit_labels, tn):
    """raw literal: surrounding (and for strings nothing extra) whitespace in front of / behind the processed literal"""
    lit, labels = lit_labels
    if PRIM[tn] == 'string' and tn in ('string', 'normalizedString', 'token'): return lit, labels     # gen_string already carries whitespace
    a = draw(st.sampled_from(WS_DECOR)); b = draw(st.sampled_from(WS_DECOR))
    if tn == 'base64Binary' and ' ' in lit and draw(st.booleans()):
        lit = lit.replace(' ', draw(st.sampled_from(['\n', ' \n', '\t', '  ', '\r\n'])))
    if a or b: labels = labels + ['bd:outer-ws']
    return a + lit + b, labels

# ---- equal-but-lexically-different variants ---------------------------------------------------------
@st.composite
def variant(draw, tn, lit):
    """another literal intended to denote the same value (the model decides whether it does)"""
    k = PRIM[tn]
    if k == 'decimal':
        m = re.match(r'([+-]?)([0-9]*)\.?([0-9]*)\Z', lit)
        if not m: return lit
        sg, ip, fp = m.groups()
        ip = draw(st.sampled_from(['', '0', '000'])) + ip
        if tn == 'decimal': fp = fp + draw(st.sampled_from(['', '0', '000']))
        if sg == '' and draw(st.booleans()) and (ip.strip('0') or fp.strip('0')): sg = '+'
        if not ip and not fp: ip = '0'
        return sg + ip + ('.' + fp if (fp or (tn == 'decimal' and draw(st.booleans()))) else '')
    if k in ('float', 'double'):
        m = re.match(r'([+-]?)([0-9]*)\.?([0-9]*)(?:[eE]([+-]?[0-9]+))?\Z', lit)
        if not m: return lit
        sg, ip, fp, ex = m.groups(); ex = int(ex or '0')
        sh = draw(st.integers(-3, 3))
        digs = ip + fp; point = len(ip) + sh
        if point < 0: digs = '0' * (-point) + digs; point = 0
        if point > len(digs): digs = digs + '0' * (point - len(digs))
        return sg + (digs[:point] or draw(st.sampled_from(['', '0']))) + '.' + digs[point:] + draw(st.sampled_from(['', '0'])) + 'E' + str(ex - sh)
    if k == 'boolean': return {'true': '1', '1': 'true', 'false': '0', '0': 'false'}.get(lit, lit)
    if k == 'hexBinary': return lit.swapcase()
    if k == 'base64Binary':
        t = lit.replace(' ', '')
        pos = sorted(set(draw(st.lists(st.integers(1, max(1, len(t) - 1)), max_size=3)))) if len(t) > 1 else []
        for p in reversed(pos): t = t[:p] + ' ' + t[p:]
        return t
    if k in ('dateTime', 'time'):
        try: v = parse_datetime(k, lit)
        except (Invalid, Unsure): return lit
        # same instant in another zone, or trailing zeros in the fraction
        if v.tz is not None and k == 'dateTime' and v.h != 24 and v.y > 1 and v.y < 99999:
            ntz = draw(st.sampled_from([0, 60, -60, 330, -480, 840, -840, 14 * 60 - 1]))
            secs = v.h * 3600 + v.mi * 60 + (ntz - v.tz) * 60
            days = days_from_civil(v.y, v.mo, v.d) + secs // 86400; secs %= 86400
            y, mo, d = civil_from_days(days)
            z = 'Z' if ntz == 0 and draw(st.booleans()) else '%s%02d:%02d' % ('-' if ntz < 0 else '+', abs(ntz) // 60, abs(ntz) % 60)
            return '%04d-%02d-%02dT%02d:%02d:%s%s' % (y, mo, d, secs // 3600, (secs // 60) % 60, _fmt_sec(v.s), z)
        m = re.match(r'((?:.*T)?[0-9]{2}:[0-9]{2}:[0-9]{2})(\.[0-9]+)?(Z|[+-][0-9]{2}:[0-9]{2})?\Z', lit)
        if m: return m.group(1) + ((m.group(2) or '.') + '0') + (m.group(3) or '')
        return lit
    if k == 'date':
        try: v = parse_datetime(k, lit)
        except (Invalid, Unsure): return lit
        if v.tz is not None and abs(v.tz) >= 600 and 1 < v.y < 99999:          # same starting instant: D+14:00 = (D-1)-10:00
            sh = -1 if v.tz > 0 else 1
            y, mo, d = civil_from_days(days_from_civil(v.y, v.mo, v.d) + sh)
            ntz = v.tz - 1440 if v.tz > 0 else v.tz + 1440
            return '%04d-%02d-%02d%s%02d:%02d' % (y, mo, d, '-' if ntz < 0 else '+', abs(ntz) // 60, abs(ntz) % 60)
        return lit
    if k == 'duration':
        return {'P1Y': 'P12M', 'P12M': 'P1Y', 'P1D': 'PT24H', 'PT24H': 'P1D', 'PT1440M': 'PT24H', 'PT86400S': 'P1D', 'P0Y': 'PT0S', 'PT0S': 'P0M'}.get(lit, lit)
    return lit
