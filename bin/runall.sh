#!/bin/bash
# runall.sh <tier> <ID...> : run checks sequentially against /repo, real evidence; summary lines to /tmp/me/runall.log
TIER=$1; shift
mkdir -p /tmp/me
for ID in "$@"; do
  /verif/vcheck $ID --tier $TIER > /tmp/me/runall.$ID.out 2>&1
  echo "rc=$? $(grep -E "^$ID tier" /tmp/me/runall.$ID.out | tail -1) :: $(grep -cE '^VIOLATION' /tmp/me/runall.$ID.out) viol, $(grep -cE '^KNOWN-FINDING' /tmp/me/runall.$ID.out) known" >> /tmp/me/runall.log
done
echo "runall done: $*" >> /tmp/me/runall.log
