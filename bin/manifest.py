#!/usr/bin/env python3
"""Regenerates /verif/MANIFEST.json from the table below (single source of truth for what is claimed)."""
import json, os, sys
HERE = os.path.dirname(os.path.dirname(os.path.abspath(__file__)))
ALL = ['C%02d' % i for i in range(1, 21)]

# id -> (technique, level text, level note, design ref)
CLAIMED = {
 'C01': ('coverage-guided fuzzing (libFuzzer + ASan/UBSan/LSan) with in-target oracles: exception audit, outcome audit, bounded work, bounded memory',
         'Five libFuzzer targets (document+external subset+external entity+schema under API x scanner x validation x feature bits decoded from the '
         'input; loadGrammar DTD/XSD; RegularExpression; XSValue/datatype validators) run from structure-aware seeds with dictionaries; every crash, '
         'sanitizer report, foreign exception or work/memory bound excess is a replayable artefact. Exploration: memory safety and termination are '
         'sampled, not proved.',
         'Trusts the sanitizers and the target code (harness/fz_*.cpp); time-boxed campaigns are only approximately reproducible from VERIF_SEED, the saved '
         'artefact is the reproducible unit; continue-after-fatal-error (documented undetermined) is not generated.',
         '3 C01'),
 'C02': ('model-based PBT (Hypothesis): well-formed-by-construction documents + 75 single-constraint mutation operators, pyexpat as second witness',
         'Each generated document must parse without fatal error under a drawn API x scanner x namespace cell, and each single-constraint mutant '
         '(well-formedness, namespace or encoding violation at a drawn site) must raise >=1 fatal error or documented exception. Verdict-only oracle; '
         'both the generator and pyexpat must agree on the expected verdict.',
         'Trusts pyexpat as XML 1.0 witness; the XML 1.1 lane has the generator only and is limited to clear-cut operators.',
         '3 C02'),
 'C04': ('differential / metamorphic PBT: read-plan partitions vs one-shot parse, exhaustive alignment sweep around the 16K-char and 48K-byte refill points, source-type differential',
         'The full canonical event dump (incl. error codes and positions) of a parse through a stream that splits the bytes by a drawn read plan, or '
         'from a file / file: URL / stdin / custom InputSource, must equal the in-memory one-shot parse; every construct kind is slid across every offset '
         'around each buffer boundary and must give the same events as with a short filler. No XML model involved.',
         'Reference is the same build; two known findings are excluded by construction (short first read, transcoding-error position).',
         '3 C04'),
 'C06': ('model-based PBT (Hypothesis): namespace-first tree generator, DOM L3 Appendix B reference model, pyexpat namespace-mode witness',
         'Trees are generated from expanded names and declarations are invented; SAX2/SAX1/DOM/DOMLS x 4 scanners must report the model (uri, local, '
         'qname), balanced prefix mappings and DOM namespace fields, and lookupNamespaceURI/lookupPrefix/isDefaultNamespace on every element must equal '
         'the Appendix B model; namespace-constraint violations must be reported.',
         'Trusts the Appendix B model in pbt/props/C06.py and pyexpat (XML 1.0); lookupPrefix checked with a validity predicate.',
         '3 C06'),
 'C03': ('model-based PBT (Hypothesis): constructive infoset->text renderer, expected event list from the model, pyexpat second witness',
         'Generated-input search: random infosets rendered with random lexical forms, each parsed through one of 7 API variants x scanner x '
         'namespace/entity configuration; the canonical event dump must equal the list derived from the model (and pyexpat must agree with the '
         'model). Exploration, not proof: exact inside the generated grammar subset.',
         'Trusts the M1 model (pbt/xmlmodel.py) where pyexpat cannot witness (XML 1.1 lane, DTD declaration events); trusts the harness dump code.',
         '3 C03'),
}
REASON_PENDING = 'check under construction in this round (framework present, check not yet validated on >=5 seeds); not claimed until it is'

def main():
    checks = []
    for pid in ALL:
        if pid not in CLAIMED: continue
        tech, text, note, ref = CLAIMED[pid]
        checks.append({
            'property_id': pid,
            'quick_cmd': './vcheck %s --tier quick' % pid,
            'thorough_cmd': './vcheck %s --tier thorough' % pid,
            'evidence_file': '/verif/evidence/%s.json' % pid,
            'replay_cmd_template': './vcheck %s --replay {path}' % pid,
            'engine': 'E-FUZZ' if pid == 'C01' else 'E-HYP',
            'level_claimed': {'category': 'exploration', 'text': text, 'design_ref': 'DESIGN.md section ' + ref},
            'level_note': note,
            'technique': tech,
        })
    hooks_commits = []
    m = {
        'version': 1,
        'setup_cmd': './setup.sh',
        'hooks': {
            'guard': 'XERCES_VERIF_HOOKS',
            'enable': 'bin/build.sh passes -DXERCES_VERIF_HOOKS in CMAKE_CXX_FLAGS when it builds /repo into /verif/build/<asan|tsan>',
            'baseline_off_cmd': 'cmake -G Ninja -S /repo -B /repo/_build >/dev/null && cmake --build /repo/_build -j16 >/dev/null && ctest --test-dir /repo/_build -j8 --timeout 900',
            'source_commits': hooks_commits,
            'add_only': True,
        },
        'engines': [
            {'name': 'E-HYP', 'path': 'pbt/', 'serves_properties': [c for c in CLAIMED], 'kind_free_text': 'Hypothesis strategies + Python reference models driving C++ executors (harness/xv*.cpp, ASan+UBSan) over pipes'},
            {'name': 'E-FUZZ', 'path': 'harness/fz_*.cpp', 'serves_properties': ['C01'], 'kind_free_text': 'libFuzzer targets with in-target semantic oracles'},
            {'name': 'E-ENUM', 'path': 'harness/xvtc*.cpp', 'serves_properties': [], 'kind_free_text': 'exhaustive C++ enumeration + rapidcheck'},
        ],
        'checks': checks,
        'notes': 'See DESIGN.md. Every check rebuilds libxerces-c from /repo\'s working tree (incremental, clang ASan+UBSan) before it runs.',
        'not_applicable': [{'property_id': p, 'reason': REASON_PENDING} for p in ALL if p not in CLAIMED],
    }
    with open(os.path.join(HERE, 'MANIFEST.json'), 'w') as f:
        json.dump(m, f, indent=1)
    print('MANIFEST.json: %d checks claimed' % len(checks))
main()
