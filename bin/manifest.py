#!/usr/bin/env python3
"""Regenerates /verif/MANIFEST.json from the table below (single source of truth for what is claimed)."""
import json, os, sys
HERE = os.path.dirname(os.path.dirname(os.path.abspath(__file__)))
ALL = ['C%02d' % i for i in range(1, 21)]

# id -> (technique, level text, level note, design ref)
CLAIMED = {
 'C01': ('coverage-guided fuzzing (libFuzzer + ASan/UBSan/LSan) with in-target oracles: exception audit, outcome audit, bounded work, bounded memory',
         'Five libFuzzer targets (document+external subset+external entity+schema under API x scanner x validation x feature bits decoded from the '
         'input; loadGrammar DTD/XSD; RegularExpression; XSValue/datatype validators) run from structure-aware seeds with dictionaries; every crash, '
         'sanitizer report, foreign exception or work/memory bound excess is a replayable artefact. Exploration: memory safety and termination are '
         'sampled, not proved.',
         'Trusts the sanitizers and the target code (harness/fz_*.cpp); time-boxed campaigns are only approximately reproducible from VERIF_SEED, the saved '
         'artefact is the reproducible unit; continue-after-fatal-error (documented undetermined) is not generated.',
         '3 C01'),
 'C02': ('model-based PBT (Hypothesis): well-formed-by-construction documents + ~80 single-constraint mutation operators, pyexpat as second witness; 3 of 5 cases on a re-used parser object',
         'Each generated document must parse without fatal error under a drawn API x scanner x namespace cell, and each single-constraint mutant '
         '(well-formedness, namespace or encoding violation at a drawn site) must raise >=1 fatal error or documented exception. Verdict-only oracle; '
         'both the generator and pyexpat must agree on the expected verdict.',
         'Trusts pyexpat as XML 1.0 witness; the XML 1.1 lane has the generator only and is limited to clear-cut operators.',
         '3 C02'),
 'C04': ('differential / metamorphic PBT: read-plan partitions vs one-shot parse, exhaustive alignment sweep around the 16K-char and 48K-byte refill points, source-type differential; coverage-guided differential fuzzing (libFuzzer target fz_chunk with the comparison inside the target)',
         'The full canonical event dump (incl. error codes and positions) of a parse through a stream that splits the bytes by a drawn read plan, or '
         'from a file / file: URL / stdin / custom InputSource, must equal the in-memory one-shot parse; every construct kind is slid across every offset '
         'around each buffer boundary and must give the same events as with a short filler. No XML model involved.',
         'Reference is the same build; two known findings are excluded by construction (short first read, transcoding-error position).',
         '3 C04'),
 'C06': ('model-based PBT (Hypothesis): namespace-first tree generator, DOM L3 Appendix B reference model, pyexpat namespace-mode witness',
         'Trees are generated from expanded names and declarations are invented; SAX2/SAX1/DOM/DOMLS x 4 scanners must report the model (uri, local, '
         'qname), balanced prefix mappings and DOM namespace fields, and lookupNamespaceURI/lookupPrefix/isDefaultNamespace on every element must equal '
         'the Appendix B model; namespace-constraint violations must be reported.',
         'Trusts the Appendix B model in pbt/props/C06.py and pyexpat (XML 1.0); lookupPrefix checked with a validity predicate.',
         '3 C06'),
 'C05': ('exhaustive enumeration (C++) + Hypothesis split-position PBT; reference codec from Unicode Table 3-7, ICU and Python codecs as independent tables',
         'Every scalar value through 20 transcoders, every UTF-8 byte string of length <=3 (thorough; structured sample in quick) and the structured 4-byte space '
         'against a reference codec, all 256 bytes of every single-byte page against ICU and Python tables, every block size x split position on random strings, '
         'and the same document in 19 encodings x BOM x declaration forms against its UTF-8 rendering.',
         'Trusts the 40-line reference codec, ICU converters and Python codecs (bytes on which ICU and Python disagree are dropped); 11 known findings excluded by construction.',
         '3 C05'),
 'C07': ('model-based PBT (Hypothesis): content-model ASTs with Glushkov automaton + Brzozowski derivatives, Python re as second witness, exhaustive child sequences, 34 single-constraint mutations',
         'Generated DTDs (all content-model shapes incl. non-deterministic ones, ten attribute types x four default kinds, internal/external/PE-split subsets, conditional sections): every child sequence up to length 5-6 '
         'must be accepted iff it is in the model language; valid-by-construction instances give no validity error, each injected violation gives an error of its class and no fatal; events equal with validation on and off.',
         'Trusts the M2 model (pbt/dtdmodel.py); edition-ambiguous standalone cases are not generated; 2 known findings excluded by construction.',
         '3 C07'),
 'C08': ('model-based PBT (Hypothesis): typed schema model, derivative-based particle matcher with counters, re.fullmatch on the expanded model as second witness, exhaustive child sequences',
         'Generated UPA-safe schemas (occurrence ranges, nested groups, all, wildcards, substitution groups, derivation, xsi:type/nil, imports) with all child sequences up to '
         'length 6 per content model, valid-by-construction instances and single-rule mutations; valid <=> zero errors, invalid => validity error of the planted class and '
         'no fatal; invalid-schema mutants must be reported; PSVI type names and defaults on valid instances.',
         'Trusts the M3 model (pbt/xsdmodel.py); XSD features with divergent readings are not generated; 10 known findings excluded by construction.',
         '3 C08'),
 'C09': ('model-based PBT (Hypothesis): lexical/value/canonical/facet model per datatype with exact arithmetic, boundary-biased and near-miss generators, three-entry-point differential',
         'For 35 built-in types and generated restrictions/lists/unions: accept <=> model, compare = model order (equal values in different lexical forms, antisymmetry, '
         'transitivity), canonical form valid / value-preserving / idempotent, and XSValue = DatatypeValidator = in-parse validation.',
         'Trusts the M4 model (pbt/dtypes.py); literals where editions/errata of XSD disagree are not generated (counted as unsure classes); 8 known findings excluded by construction.',
         '3 C09'),
 'C10': ('model-based PBT (Hypothesis): instances built from tuple tables, XPath-subset evaluator + XSD 3.11.4 semantics as model, order/multiplicity metamorphic relations',
         'unique/key/keyref over attribute and element fields of 7 value types with planted duplicates, absent fields, dangling references and lexically different equal values; '
         'verdict and error class must equal the model, and permuting or adding tuples must not change the verdict.',
         'Trusts the M5 model (pbt/icmodel.py), no second implementation exists in the image; 4 known findings excluded by construction.',
         '3 C10'),
 'C11': ('model-based PBT (Hypothesis): regex AST + Thompson-NFA membership over a curated alphabet, Python re as second witness, exhaustive short subjects, option/reuse metamorphic relations',
         'Schema-dialect patterns (classes, subtraction, categories, blocks, all quantifier forms) x all subjects up to length 5 over the pattern alphabet + sampled members / neighbours; '
         'verdict <=> model <=> re; malformed patterns => ParseException; verdict independent of F/H options, Match object and object reuse; window form; search positions, tokenize and replace.',
         'Trusts the M6 model (pbt/regexmodel.py) on a 39-character alphabet with stable Unicode properties; 10 known findings excluded by construction (one of them coarse: members with a proper-prefix member).',
         '3 C11'),
 'C12': ('round-trip / idempotence PBT (Hypothesis) with pyexpat and Python codecs as independent witnesses; exact-bytes model of XMLFormatter escape modes',
         'Parsed and API-built DOM trees serialised in 9 encodings x feature sets x targets: output well-formed for Xerces and pyexpat, re-parsed tree equal (isEqualNode both ways and dump equality, '
         'pyexpat events equal), second serialisation byte-identical, unencodable characters as references or reported, inexpressible content reported; XMLFormatter bytes equal the escape-table model.',
         'Trusts pyexpat/Python codecs and the tree model for built trees; 13 known findings excluded by construction.',
         '3 C12'),
 'C13': ('model-based stateful PBT (Hypothesis): operation histories with operands taken modulo the live-node set, Python DOM reference model in lock-step, per-step structural invariants',
         'Histories of 1-200 DOM Core operations over 1-3 documents (parsed ones with doctype/entities/defaults): after every step the exception code / result equals the model, the structural '
         'invariants hold (links consistent, <=1 parent, no cycles, uniform ownerDocument, attribute maps) and the canonical dump CRC equals the model; rejected operations leave the tree unchanged.',
         'Trusts the M7 model (pbt/dommodel.py); implementation-dependent steps are tagged unspecified (invariants only); 10 known findings excluded by construction.',
         '3 C13'),
 'C14': ('model-based stateful PBT (Hypothesis): C13 histories interleaved with live NodeIterators, tag-name lists and Ranges, reference model of DOM Traversal / Range fix-up rules',
         'After every mutation every live view must equal the model: list contents in document order, iterator reference node and position, range boundary points (valid, ordered, one root), plus C13 invariants.',
         'Trusts the M7 view model; TreeWalker and range content operations are outside the default domain; 5 known findings excluded by construction.',
         '3 C14'),
 'C15': ('differential PBT (Hypothesis): operation histories on one parser object vs the same call on a freshly constructed parser, computed inside the executor; transparency lane (cached / preloaded grammar vs grammar read inline); coverage-guided differential fuzzing (libFuzzer target fz_reuse: parse(A);parse(B) vs fresh parse(B))',
         'Histories of parse / abandoned progressive parse / handler exception / feature change / loadGrammar / pool resets / adoptDocument over colliding documents; every parse and loadGrammar must '
         'give the same canonical event dump (incl. errors and positions) as on a fresh parser with the same features and cached grammars; a parse that uses a grammar cached by loadGrammar or by an earlier parse '
         'must give the same verdicts, positions, content and defaults as a fresh parser reading the grammar inline; adopted documents stay intact.',
         'Reference is the same build (no XML model); persistent state modelled = feature string + grammars cached via loadGrammar; PSVI excluded (known finding).',
         '3 C15'),
 'C16': ('differential PBT (Hypothesis): pool A vs deserialize(serialize(A)) vs second generation, per-instance event dumps and sorted XSModel/DTD dumps',
         'Generated DTD + schema pools covering every serialisable component kind; every instance must validate identically (verdict, codes, positions, defaults) against A, B and C, '
         'model dumps equal, stream lengths equal, altered level stamp / non-empty pool / short stream rejected with XSerializationException.',
         'Same-build round trips only; instance validity itself is not modelled (differential); 1 known finding excluded.',
         '3 C16'),
 'C17': ('ThreadSanitizer (+ASan pass) on Hypothesis-generated N-thread workloads from a cold start, fresh process per case, per-thread result digests vs single-threaded re-run',
         'N in {2..16} threads run generated lists of parse (private parser / shared locked pool), DOM build+serialise, regex with category escapes, transcoding, object create/destroy and message loading '
         'with no main-thread warm-up; no TSan report with a Xerces frame, no crash, every digest equals the sequential re-run, hangs need 3/3 replays.',
         'Happens-before detection only for instrumented code (ICU/curl are not); schedules are perturbed by seeded yields, not enumerated; 4 known races excluded by warm-up and counted.',
         '3 C17'),
 'C18': ('fault enumeration + PBT: recording MemoryManager (ledger) with the handler-exception point k and the abandon point j enumerated exhaustively per document; lifecycle scripts in fresh processes',
         'Every parser class on a ledger manager x documents (valid, malformed, invalid) x endings (normal, fatal, exception at EVERY k-th callback up to kmax, progressive parse abandoned at every step) x '
         'lifetime scripts (reuse, adopt/release order, pools, two ledgers): no foreign/repeated pointer, nothing outstanding; balanced Initialize/Terminate nestings leave the global ledger empty, same workload digest, LSan silent.',
         'Allocation-failure paths not covered; k enumerated up to kmax (40 quick / 400 thorough).',
         '3 C18'),
 'C19': ('PBT (Hypothesis) with in-process observation: wrappers around the platform file manager, net accessor and entity resolver record one ordered access log per parse; generated canary/decoy file trees; entity DAGs with computed expansion counts',
         'Touched resources must be within what the drawn configuration permits (four "disabled" configurations, decoys, merely declared entities), every fetch must have been offered to the resolver first with the '
         'containing entity as base, substituted ids are not fetched; E<=L parses unchanged, E>L => EntityExpansionLimitExceeded, cycles => RecursiveEntity and termination.',
         'An access that bypassed XMLPlatformUtils::fgFileMgr / fgNetAccessor would not be seen; PE expansion is a known finding.',
         '3 C19'),
 'C20': ('model-based PBT (Hypothesis): XInclude 1.0 reference implementation over generated file trees, RFC 3986 resolver (urllib as witness), resolved-base-URI comparison',
         'Inclusion graphs (chains, diamonds, include as document element, text includes in 5 encodings, fallbacks, cycles, invalid usages) under DOM/DOMLS: merged tree equals the model modulo xml:base, '
         'every element resolves to the model base URI, loops and invalid usage are reported and the parse terminates.',
         'Trusts the M8 model (pbt/xincmodel.py); 7 known findings excluded by construction.',
         '3 C20'),
 'C03': ('model-based PBT (Hypothesis): constructive infoset->text renderer, expected event list from the model, pyexpat second witness',
         'Generated-input search: random infosets rendered with random lexical forms, each parsed through one of 7 API variants x scanner x '
         'namespace/entity configuration; the canonical event dump must equal the list derived from the model (and pyexpat must agree with the '
         'model). Exploration, not proof: exact inside the generated grammar subset.',
         'Trusts the M1 model (pbt/xmlmodel.py) where pyexpat cannot witness (XML 1.1 lane, DTD declaration events); trusts the harness dump code.',
         '3 C03'),
}
REASON_PENDING = 'check under construction in this round (framework present, check not yet validated on >=5 seeds); not claimed until it is'

def main():
    checks = []
    for pid in ALL:
        if pid not in CLAIMED: continue
        tech, text, note, ref = CLAIMED[pid]
        checks.append({
            'property_id': pid,
            'quick_cmd': './vcheck %s --tier quick' % pid,
            'thorough_cmd': './vcheck %s --tier thorough' % pid,
            'evidence_file': '/verif/evidence/%s.json' % pid,
            'replay_cmd_template': './vcheck %s --replay {path}' % pid,
            'engine': 'E-FUZZ' if pid == 'C01' else ('E-ENUM' if pid == 'C05' else 'E-HYP'),
            'level_claimed': {'category': 'exploration', 'text': text, 'design_ref': 'DESIGN.md section ' + ref},
            'level_note': note,
            'technique': tech,
        })
    hooks_commits = []
    m = {
        'version': 1,
        'setup_cmd': './setup.sh',
        'hooks': {
            'guard': 'XERCES_VERIF_HOOKS',
            'enable': 'bin/build.sh passes -DXERCES_VERIF_HOOKS in CMAKE_CXX_FLAGS when it builds /repo into /verif/build/<asan|tsan>',
            'baseline_off_cmd': 'cmake -G Ninja -S /repo -B /repo/_build >/dev/null && cmake --build /repo/_build -j16 >/dev/null && ctest --test-dir /repo/_build -j8 --timeout 900',
            'source_commits': hooks_commits,
            'add_only': True,
        },
        'engines': [
            {'name': 'E-HYP', 'path': 'pbt/', 'serves_properties': [c for c in CLAIMED], 'kind_free_text': 'Hypothesis strategies + Python reference models driving C++ executors (harness/xv*.cpp, ASan+UBSan) over pipes'},
            {'name': 'E-FUZZ', 'path': 'harness/fz_*.cpp', 'serves_properties': ['C01'], 'kind_free_text': 'libFuzzer targets with in-target semantic oracles'},
            {'name': 'E-ENUM', 'path': 'harness/xvtc*.cpp', 'serves_properties': ['C05'], 'kind_free_text': 'exhaustive C++ enumeration + rapidcheck'},
        ],
        'checks': checks,
        'notes': 'See DESIGN.md. Every check rebuilds libxerces-c from /repo\'s working tree (incremental, clang ASan+UBSan) before it runs.',
        'not_applicable': [{'property_id': p, 'reason': REASON_PENDING} for p in ALL if p not in CLAIMED],
    }
    with open(os.path.join(HERE, 'MANIFEST.json'), 'w') as f:
        json.dump(m, f, indent=1)
    print('MANIFEST.json: %d checks claimed' % len(checks))
main()
