#!/usr/bin/env python3-vt
"""gencorpus.py -- (dev-time) writes the committed structure-aware seed corpora /verif/corpus/<target>/ from the Hypothesis generators.
Deterministic (fixed Hypothesis seed).  fz_parse seeds = document SEP external-subset SEP external-entity SEP schema + 9 configuration bytes."""
import os, sys, hashlib
HERE = os.path.dirname(os.path.dirname(os.path.abspath(__file__))); sys.path.insert(0, os.path.join(HERE, 'pbt'))
import hypothesis
from hypothesis import given, settings, HealthCheck, Phase, strategies as st
import xmlmodel as xm, wfmut
import props.C01 as C01
SEP = C01.SEP
def collect(strategy, n, seed):
    out = []
    @hypothesis.seed(seed)
    @settings(max_examples=n, database=None, deadline=None, suppress_health_check=list(HealthCheck), phases=[Phase.generate])
    @given(strategy)
    def f(x): out.append(x)
    f(); return out
def write(target, items):
    d = os.path.join(HERE, 'corpus', target); os.makedirs(d, exist_ok=True)
    seen = set()
    for b in items:
        h = hashlib.sha1(b).hexdigest()[:12]
        if h in seen or len(b) > 6000: continue
        seen.add(h); open(os.path.join(d, h), 'wb').write(b)
    print(target, len(seen))
def main():
    docs = collect(st.tuples(xm.gen_doc(xm.GenCfg(max_depth=3, max_children=4, max_text=8)), st.sampled_from([None, None] + wfmut.OPS_ANY + wfmut.OPS_NS), st.integers(0, 999), st.integers(0, 1000)), 400, 11)
    items = []
    for d, op, k, cfg in docs:
        text, files = xm.render(d)
        if len(text) < 40: continue
        if op:
            m = wfmut.mutate(text, d, op, k)
            if m: text = m
        data = xm.encode_doc(text, 'utf-8' if cfg % 5 else 'utf-16le-bom')
        ext = files.get('ext.dtd', '').replace('@ENC@', 'UTF-8').encode(); ent = files.get('xe.ent', '').replace('@ENC@', 'UTF-8').encode()
        items.append(data + SEP + ext + SEP + ent + SEP + b'' + C01.cfg_suffix(cfg))
    write('fz_parse', items[:160])
    import grammargen as gg
    xs = [g['text'].encode() + C01.cfg_suffix(i) for i, g in enumerate(collect(gg.gen_schema(), 80, 12)) if len(g['text']) < 5000]
    ds = [(g['text'] if isinstance(g, dict) else str(g)).encode() + C01.cfg_suffix(i) for i, g in enumerate(collect(gg.gen_dtd(), 80, 13))]
    write('fz_xsd', xs[:60]); write('fz_dtd', ds[:60])
main()
