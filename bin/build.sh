#!/bin/bash
# build.sh <flavour> [harness-target ...]
#   flavour: asan | tsan
# Builds libxerces-c.a from the CURRENT working tree of $VERIF_REPO (default /repo) into
# $VERIF_BUILD/<flavour> (default /verif/build/<flavour>) with the hook guard on, then the named
# harness executables from /verif/harness into $VERIF_BUILD/<flavour>/h/.
# Incremental; serialised by flock so concurrent checks do not trample each other.
set -euo pipefail
FLAV="$1"; shift || true
HERE="$(cd "$(dirname "$0")/.." && pwd)"
REPO="${VERIF_REPO:-/repo}"
BROOT="${VERIF_BUILD:-$HERE/build}"
B="$BROOT/$FLAV"
mkdir -p "$B/h"
GUARD="-DXERCES_VERIF_HOOKS"
case "$FLAV" in
  asan) SAN="-fsanitize=fuzzer-no-link,address,undefined -fno-sanitize-recover=undefined -fno-sanitize=vptr"
        LSAN="-fsanitize=address,undefined"
        FSAN="-fsanitize=fuzzer,address,undefined";;
  tsan) SAN="-fsanitize=thread"; LSAN="-fsanitize=thread"; FSAN="";;
  *) echo "unknown flavour $FLAV" >&2; exit 2;;
esac
CXXFLAGS="-g -O1 -fno-omit-frame-pointer $SAN $GUARD -Wno-error -w"
exec 9>"$B/.lock"
flock 9
if [ ! -f "$B/build.ninja" ] || [ "$(cat "$B/.repo" 2>/dev/null)" != "$REPO" ]; then
  rm -rf "$B/CMakeCache.txt" "$B/CMakeFiles"
  cmake -G Ninja -S "$REPO" -B "$B" \
    -DCMAKE_C_COMPILER=clang -DCMAKE_CXX_COMPILER=clang++ \
    -DCMAKE_BUILD_TYPE=None -DBUILD_SHARED_LIBS=OFF \
    -DCMAKE_CXX_FLAGS="$CXXFLAGS" -DCMAKE_C_FLAGS="-g -O1 $SAN -w" \
    -Dnetwork-accessor=curl -Dtranscoder=icu -Dmessage-loader=inmemory \
    -Dmutex-manager=standard -Dxmlch-type=char16_t > "$B/cmake.log" 2>&1 || { cat "$B/cmake.log" >&2; exit 3; }
  echo "$REPO" > "$B/.repo"
fi
if ! ninja -C "$B" xerces-c > "$B/ninja.log" 2>&1; then
  tail -40 "$B/ninja.log" >&2
  echo "BUILD-FAILED: libxerces-c ($FLAV)" >&2
  exit 3
fi
LIB="$B/src/libxerces-c.a"
[ -f "$LIB" ] || LIB="$(find "$B/src" -name 'libxerces-c*.a' | head -1)"
INC="-I$REPO/src -I$B/src -I$B -I$HERE/harness"
LIBS="$LIB -licuuc -licudata -lcurl -lpthread"
for T in "$@"; do
  SRC="$HERE/harness/$T.cpp"
  OUT="$B/h/$T"
  DEP="$B/h/$T.d"
  need=0
  if [ ! -x "$OUT" ] || [ "$LIB" -nt "$OUT" ]; then need=1; fi
  if [ $need = 0 ] && [ -f "$DEP" ]; then
    # any dependency newer than the binary?
    for f in $(sed -e 's/^[^:]*://' -e 's/\\$//' "$DEP"); do
      if [ "$f" -nt "$OUT" ]; then need=1; break; fi
    done
  elif [ $need = 0 ]; then need=1; fi
  if [ $need = 1 ]; then
    case "$T" in
      fz_*) LS="$FSAN";;
      *)    LS="$LSAN";;
    esac
    EXTRA=""
    case "$T" in xvtc|xvprop_*) EXTRA="-lrapidcheck";; esac
    if ! clang++ -std=gnu++17 -g -O1 -fno-omit-frame-pointer $LS -fno-sanitize-recover=undefined -fno-sanitize=vptr \
         $GUARD -w $INC -MMD -MF "$DEP" "$SRC" -o "$OUT.tmp" $LIBS $EXTRA > "$B/h/$T.log" 2>&1; then
      tail -40 "$B/h/$T.log" >&2
      echo "BUILD-FAILED: harness $T ($FLAV)" >&2
      exit 3
    fi
    mv "$OUT.tmp" "$OUT"
  fi
done
echo "$B"
