#!/usr/bin/env python3
"""muttest.py <mutants.json> [--only name,...] [--tier quick]
Applies each mutant (unique string replacement) to the scratch worktree $MUT_REPO (default /tmp/me/repo), runs the named checks against
it (VERIF_REPO/VERIF_BUILD pointing at the scratch tree and build), reverts, and appends a line per (mutant, check) to SENSITIVITY.tsv.
Never touches /repo.  Evidence/findings of these runs go to $MUT_OUT (default /tmp/me/out)."""
import json, os, subprocess, sys, time
HERE = os.path.dirname(os.path.dirname(os.path.abspath(__file__)))
REPO = os.environ.get('MUT_REPO', '/tmp/me/repo'); BUILD = os.environ.get('MUT_BUILD', '/tmp/me/build'); OUT = os.environ.get('MUT_OUT', '/tmp/me/out')
def main():
    muts = json.load(open(sys.argv[1]))
    only = None; tier = 'quick'
    if '--only' in sys.argv: only = set(sys.argv[sys.argv.index('--only') + 1].split(','))
    if '--tier' in sys.argv: tier = sys.argv[sys.argv.index('--tier') + 1]
    env = dict(os.environ, VERIF_REPO=REPO, VERIF_BUILD=BUILD, VERIF_EVIDENCE_DIR=OUT + '/evidence', VERIF_FINDINGS_DIR=OUT + '/findings',
               VERIF_WORKERS=os.environ.get('VERIF_WORKERS', '8'))
    for m in muts:
        if only and m['name'] not in only: continue
        path = os.path.join(REPO, m['file']); src = open(path).read()
        if src.count(m['old']) != 1:
            print('SKIP %s: pattern occurs %d times' % (m['name'], src.count(m['old']))); continue
        open(path, 'w').write(src.replace(m['old'], m['new']))
        try:
            for pid in m['props']:
                t0 = time.time()
                p = subprocess.run([os.path.join(HERE, 'vcheck'), pid, '--tier', tier], env=env, stdout=subprocess.PIPE, stderr=subprocess.STDOUT, text=True)
                viol = [l for l in p.stdout.split('\n') if l.startswith('VIOLATION')]
                res = 'CAUGHT' if (p.returncode == 1 and viol) else ('BUILD-FAIL' if p.returncode == 2 else 'missed')
                line = '%s\t%s\t%s\t%s\t%ds\t%d violations' % (m['name'], m['file'].split('/')[-1], pid, res, time.time() - t0, len(viol))
                print(line, flush=True)
                open(os.path.join(HERE, 'SENSITIVITY.tsv'), 'a').write(line + '\t' + tier + '\n')
                if res != 'CAUGHT': print(p.stdout[-1500:])
        finally:
            open(path, 'w').write(src)
main()
