#!/usr/bin/env python3
"""seedcheck.py <seed-dir> <name> <prop> [check ids...]
Confirms a seeded change delivered in <seed-dir>/out (patch.diff, demo/run.sh, meta.json):
  1. applies it to the scratch worktree $MUT_REPO (reset to /repo HEAD), builds guard-off into /tmp/me/sb, runs the 80 ctest cases
  2. runs demo/run.sh against /tmp/me/sb (must exit 1) and against the baseline build /tmp/me/sb0 of the unchanged HEAD (must exit 0)
  3. runs the named /verif checks (quick tier) against the changed tree (VERIF_REPO/VERIF_BUILD)
  4. stores patch, demo and meta.json under /verif/seeded/<name>/ with the results
Never touches /repo."""
import json, os, shutil, subprocess, sys, time
V = '/verif'; BASE = os.environ.get('MUT_BASE', '/tmp/me'); REPO = BASE + '/repo'; SB = BASE + '/sb'; SB0 = BASE + '/sb0'
def sh(cmd, **kw):
    return subprocess.run(cmd, shell=True, stdout=subprocess.PIPE, stderr=subprocess.STDOUT, text=True, **kw)
def main():
    sd, name, prop = sys.argv[1], sys.argv[2], sys.argv[3]; checks = [prop] + [c for c in sys.argv[4:] if c != prop]
    out = os.path.join(sd, 'out'); res = {'property': prop, 'name': name}
    head = sh('git -C /repo rev-parse HEAD').stdout.strip()
    sh('git -C %s checkout -q --detach %s && git -C %s checkout -- . && git -C %s clean -fdq -e _build -e _build0' % (REPO, head, REPO, REPO))
    # baseline build (unchanged HEAD)
    if not os.path.exists(SB0 + '/.head') or open(SB0 + '/.head').read() != head:
        r = sh('cmake -G Ninja -S %s -B %s > /dev/null && cmake --build %s -j8' % (REPO, SB0, SB0)); open(SB0 + '/.head', 'w').write(head)
        if r.returncode: print('baseline build failed\n' + r.stdout[-2000:]); return 2
    r = sh('git -C %s apply %s/patch.diff' % (REPO, out))
    if r.returncode: print('patch does not apply to HEAD: ' + r.stdout); res['applies'] = False; print(json.dumps(res)); return 2
    res['applies'] = True
    try:
        r = sh('cmake -G Ninja -S %s -B %s > /dev/null && cmake --build %s -j8' % (REPO, SB, SB))
        res['compiles'] = r.returncode == 0
        if not res['compiles']: print(r.stdout[-2000:]); return 2
        prev = {}
        try: prev = json.load(open(os.path.join(V, 'seeded', name, 'meta.json'))).get('confirmed_by_integrator', {})
        except Exception: pass
        if os.environ.get('SEED_RECHECK') and prev.get('ctest_ok') is not None:
            for k2 in ('ctest', 'ctest_ok', 'demo_with_change', 'demo_without_change', 'demo_tail_with'): res[k2] = prev.get(k2)
            res['checks_before_strengthening'] = prev.get('checks')
        else:
            t0 = time.time(); r = sh('ctest --test-dir %s -j6 --timeout 900' % SB)
            res['ctest'] = [l for l in r.stdout.split('\n') if 'tests passed' in l or 'tests failed' in l][-1:] ; res['ctest_ok'] = '100% tests passed' in r.stdout
            # many demos take the source tree to be the parent of the build directory: offer the builds under that name
            for link, tgt in ((REPO + '/_build', SB), (REPO + '/_build0', SB0)):
                if not os.path.islink(link): os.symlink(tgt, link)
            r1 = sh('bash %s/demo/run.sh %s' % (out, REPO + '/_build'), cwd=os.path.join(out, 'demo')); res['demo_with_change'] = r1.returncode
            r0 = sh('bash %s/demo/run.sh %s' % (out, REPO + '/_build0'), cwd=os.path.join(out, 'demo')); res['demo_without_change'] = r0.returncode
            res['demo_tail_with'] = r1.stdout[-400:]
        env = dict(os.environ, VERIF_REPO=REPO, VERIF_BUILD=BASE + '/build', VERIF_EVIDENCE_DIR=BASE + '/out/evidence', VERIF_FINDINGS_DIR=BASE + '/out/findings/' + name,
                   VERIF_WORKERS=os.environ.get('VERIF_WORKERS', '8'))
        res['checks'] = {}
        for c in checks:
            t0 = time.time(); p = subprocess.run([V + '/vcheck', c, '--tier', os.environ.get('SEED_TIER', 'quick')], env=env, stdout=subprocess.PIPE, stderr=subprocess.STDOUT, text=True)
            viol = [l for l in p.stdout.split('\n') if l.startswith('VIOLATION')]
            res['checks'][c] = {'result': 'CAUGHT' if (p.returncode == 1 and viol) else ('BUILD-FAIL' if p.returncode == 2 else 'missed'), 'violations': len(viol), 'wall_s': int(time.time() - t0),
                                'summary': [l for l in p.stdout.split('\n') if l.startswith(c + ' tier')][-1:]}
            os.makedirs(BASE + '/out', exist_ok=True); open(BASE + '/out/seed.%s.%s.log' % (name, c), 'w').write(p.stdout)
    finally:
        sh('git -C %s checkout -- . && git -C %s clean -fdq -e _build -e _build0' % (REPO, REPO))
    dst = os.path.join(V, 'seeded', name); os.makedirs(dst, exist_ok=True)
    shutil.copy(os.path.join(out, 'patch.diff'), dst)
    if os.path.isdir(os.path.join(dst, 'demo')): shutil.rmtree(os.path.join(dst, 'demo'))
    shutil.copytree(os.path.join(out, 'demo'), os.path.join(dst, 'demo'), ignore=shutil.ignore_patterns('*.o', 'demo_bin', 'a.out', '*.exe', 'build*'))
    meta = {}
    try: meta = json.load(open(os.path.join(out, 'meta.json')))
    except Exception as e: meta = {'meta_error': str(e)}
    meta['confirmed_by_integrator'] = res; meta['repo_head'] = head
    json.dump(meta, open(os.path.join(dst, 'meta.json'), 'w'), indent=1)
    print(json.dumps(res, indent=1))
main()
