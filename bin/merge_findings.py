#!/usr/bin/env python3
"""merge known_findings.d/*.json (lists of entries written by check authors) into known_findings.json; idempotent (by id). Dev-time tool only."""
import json, glob, os
HERE = os.path.dirname(os.path.dirname(os.path.abspath(__file__)))
k = json.load(open(os.path.join(HERE, 'known_findings.json')))
ids = {f['id'] for f in k['findings']}
n = 0
for p in sorted(glob.glob(os.path.join(HERE, 'known_findings.d', '*.json'))):
    for e in json.load(open(p)):
        if e['id'] in ids: continue
        w = e.get('witness')
        if w and not os.path.exists(os.path.join(HERE, w)): print('WARNING: witness missing', e['id'], w)
        k['findings'].append(e); ids.add(e['id']); n += 1
json.dump(k, open(os.path.join(HERE, 'known_findings.json'), 'w'), indent=1)
print('merged %d new entries; total %d' % (n, len(k['findings'])))
