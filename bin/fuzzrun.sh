#!/bin/bash
# development helper: fuzzrun.sh <target> <seconds> <workdir> [corpus-src] [dict] [extra libFuzzer args...]
# runs one libFuzzer campaign of build/asan/h/<target> in <workdir> (corpus c/, artifacts a/, log run.log) and prints the oracle lines.
set -u
T=$1; SECS=$2; W=$3; SRC=${4:-}; DICT=${5:-}; shift; shift; shift; [ $# -gt 0 ] && shift; [ $# -gt 0 ] && shift
V=$(cd "$(dirname "$0")/.." && pwd)
mkdir -p "$W/c" "$W/a"
rm -f "$W"/a/*
[ -n "$SRC" ] && [ -d "$SRC" ] && cp -n "$SRC"/* "$W/c/" 2>/dev/null
cd "$W" || exit 2
ARGS=(c -max_total_time="$SECS" -artifact_prefix=a/ -max_len=4096 -timeout=60)
[ -n "$DICT" ] && ARGS+=(-dict="$DICT")
timeout $((SECS + 200)) "${VERIF_BUILD:-$V/build}/asan/h/$T" "${ARGS[@]}" "$@" > run.log 2>&1
grep -aE "XV-ORACLE|one-shot|chunked|api=|SUMMARY|ERROR|stat::number_of_executed|Done" run.log | head -20
ls a
