#!/bin/bash
# seedsweep.sh <ID> <tier> <seed...>  -- runs a check with several seeds against /repo; evidence/findings go to a scratch dir; log to /tmp/me/sweeps/
ID=$1; TIER=$2; shift 2
mkdir -p /tmp/me/sweeps /tmp/me/sweepout
for s in "$@"; do
  VERIF_SEED=$s VERIF_EVIDENCE_DIR=/tmp/me/sweepout/evidence VERIF_FINDINGS_DIR=/tmp/me/sweepout/findings/$ID.$s \
    /verif/vcheck $ID --tier $TIER 2>&1 | grep -E "^(VIOLATION|KNOWN-FINDING|C[0-9]+ tier|BUILD-FAILED|MACHINERY)" | sed "s/^/seed=$s /" >> /tmp/me/sweeps/$ID.$TIER.log
done
echo "done $ID $TIER $*" >> /tmp/me/sweeps/$ID.$TIER.log
