#!/bin/bash
# Run once after a fresh restore (offline): builds the sanitizer flavour(s) of libxerces-c from /repo and all harness executables.
set -e
cd "$(dirname "$0")"
export CARGO_NET_OFFLINE=true GOPROXY=off PIP_NO_INDEX=1
HARN=$(ls harness/*.cpp 2>/dev/null | xargs -n1 basename | sed 's/\.cpp$//' | grep -v '^xvthr' || true)
bin/build.sh asan $HARN > /dev/null
if ls harness/xvthr*.cpp >/dev/null 2>&1; then
  bin/build.sh tsan $(ls harness/xvthr*.cpp | xargs -n1 basename | sed 's/\.cpp$//') > /dev/null
fi
echo "setup ok"
