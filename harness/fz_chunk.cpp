// fz_chunk: libFuzzer differential target for C04 -- for ANY bytes, the canonical event dump (events, error codes, lines, columns) of a parse
// that receives the document through a stream following a fuzz-chosen read plan must equal the dump of the one-shot in-memory parse.
// Known findings are excluded by construction: the first read always covers the XML declaration / at least 64 bytes (C04-short-first-read),
// and when the first fatal error is a transcoding exception (domain E) only verdict, code and the prefix relation are compared
// (C04-transcoding-error-position).
#include "xvcommon.hpp"
#include <fuzzer/FuzzedDataProvider.h>
using namespace xv;
static bool g_init = false;
static void die(const std::string& why) { fprintf(stderr, "\n==XV-ORACLE== chunking-dependence\n%s\n", why.substr(0, 3000).c_str()); fflush(stderr); __builtin_trap(); }
static std::vector<std::string> linesOf(const std::string& s) { return split(s, '\n'); }
static int firstFatal(const std::vector<std::string>& l) { for (size_t i = 0; i < l.size(); i++) if (l[i].compare(0, 4, "ERR\t") == 0 && l[i].find("\tF\t") != std::string::npos) return (int)i; return -1; }
// C04-short-first-read excluded by construction: XMLReader senses the encoding and decodes the XML declaration from the first raw buffer only,
// up to the first '>' *as encoded in the sensed encoding family*; when there is none it consumes the whole first buffer.
static size_t firstRead(const std::string& d) {
    const unsigned char* p = (const unsigned char*)d.data(); size_t n = d.size(), w = 1, off = 0; unsigned char gt = 0x3E; bool be = true;
    auto is = [&](unsigned a, unsigned b, unsigned c, unsigned e) { return n >= 4 && p[0] == a && p[1] == b && p[2] == c && p[3] == e; };
    if (is(0, 0, 0xFE, 0xFF) || is(0, 0, 0, 0x3C)) { w = 4; be = true; off = p[2] == 0xFE ? 4 : 0; }
    else if (is(0xFF, 0xFE, 0, 0) || is(0x3C, 0, 0, 0)) { w = 4; be = false; off = p[0] == 0xFF ? 4 : 0; }
    else if (n >= 2 && p[0] == 0xFE && p[1] == 0xFF) { w = 2; be = true; off = 2; }
    else if (n >= 2 && p[0] == 0xFF && p[1] == 0xFE) { w = 2; be = false; off = 2; }
    else if (is(0, 0x3C, 0, 0x3F)) { w = 2; be = true; }
    else if (is(0x3C, 0, 0x3F, 0)) { w = 2; be = false; }
    else if (is(0x4C, 0x6F, 0xA7, 0x94)) gt = 0x6E;
    for (size_t i = off; i + w <= n; i += w) {
        bool hit = true;
        for (size_t k = 0; k < w; k++) { unsigned char want = (be ? k == w - 1 : k == 0) ? gt : 0; if (p[i + k] != want) { hit = false; break; } }
        if (hit) return std::min(n, std::max<size_t>(64, i + w + 2 * w));
    }
    return n;
}
extern "C" int LLVMFuzzerTestOneInput(const uint8_t* data, size_t size) {
    if (!g_init) { g_init = true; XMLPlatformUtils::Initialize(); }
    if (size > 70000) return 0;
    FuzzedDataProvider fdp(data, size);
    static const char* apis[] = {"sax2", "sax1", "dom", "psax2"};
    static const char* scanners[] = {"IG", "WF", "DG", "SG"};
    static const size_t sizes[] = {1, 2, 3, 4, 5, 7, 64, 4095, 4096, 16383, 16384, 49151, 49152};
    unsigned api = fdp.ConsumeIntegralInRange<unsigned>(0, 3), sc = fdp.ConsumeIntegralInRange<unsigned>(0, 3), ns = fdp.ConsumeIntegralInRange<unsigned>(0, 1);
    unsigned np = fdp.ConsumeIntegralInRange<unsigned>(1, 4);
    std::string plan;
    for (unsigned i = 0; i < np; i++) { if (i) plan += ","; plan += std::to_string(sizes[fdp.ConsumeIntegralInRange<unsigned>(0, 12)]); }
    unsigned pad = fdp.ConsumeIntegralInRange<unsigned>(0, 5);
    std::string doc = fdp.ConsumeRemainingBytesAsString();
    // optional padding comment after the XML declaration / at the start pushes the rest across the 16K / 48K refill points
    static const size_t pads[] = {0, 0, 16290, 16384 - 40, 49152 - 60, 32768 - 50};
    if (pads[pad]) { size_t at = 0; if (doc.compare(0, 5, "<?xml") == 0) { size_t e = doc.find("?>"); if (e != std::string::npos) at = e + 2; } doc.insert(at, "<!--" + std::string(pads[pad] + (size % 90), 'x') + "-->"); }
    size_t first = firstRead(doc);
    char feat[128]; snprintf(feat, sizeof feat, "scanner=%s;val=0;ns=%u;secmgr=100", scanners[sc], ns);
    Req a; a["feat"] = feat; a["api"] = apis[api]; a["doc"] = doc; a["totalres"] = "1"; a["src"] = "mem"; a["loc"] = "1";
    Req b = a; b.erase("src"); b["chunks"] = plan; b["chunk1"] = std::to_string(first);
    ParseOut pa, pb; runParse(a, pa); runParse(b, pb);
    if (getenv("XV_DUMP")) { FILE* f = fopen(getenv("XV_DUMP"), "wb"); if (f) { fwrite(doc.data(), 1, doc.size(), f); fclose(f); } }
    if (getenv("XV_DUMP")) fprintf(stderr, "---- one-shot\n%s---- chunked %s first=%zu\n%s----\n", pa.ced.c_str(), plan.c_str(), first, pb.ced.c_str());
    if (pa.ced == pb.ced) return 0;
    std::vector<std::string> la = linesOf(pa.ced), lb = linesOf(pb.ced);
    int fa = firstFatal(la), fb = firstFatal(lb);
    bool trans = (fa >= 0 && la[fa].compare(0, 6, "ERR\tE\t") == 0) || (fb >= 0 && lb[fb].compare(0, 6, "ERR\tE\t") == 0);
    if (trans && fa >= 0 && fb >= 0) {
        // both stop at a transcoding error: same domain/code/severity.  Only one does: the other met an earlier well-formedness error that the
        // transcoder's read-ahead overtook, so the transcoding side must be the one that delivered less.  In both cases the shorter list of
        // events is a prefix of the longer (last text may be cut).
        std::vector<std::string> ca = split(la[fa], '\t'), cb = split(lb[fb], '\t');
        bool ea = ca.size() > 3 && ca[1] == "E", eb = cb.size() > 3 && cb[1] == "E";
        bool same = (fa < fb && ea) || (fb < fa && eb) || (fa == fb && (ea || eb));     // the side that stopped first stopped at an exception raised by a buffer refill
        size_t n = std::min(fa, fb); bool pre = true;
        for (size_t i = 0; i < n && pre; i++) if (la[i] != lb[i]) { if (i + 1 == n && la[i].compare(0, 2, "T\t") == 0 && (la[i].find(lb[i]) == 0 || lb[i].find(la[i]) == 0)) continue; pre = false; }
        if (same && pre) return 0;
    }
    size_t i = 0; while (i < la.size() && i < lb.size() && la[i] == lb[i]) i++;
    die(std::string("api=") + apis[api] + " feat=" + feat + " plan=" + plan + " first=" + std::to_string(first) + "\n one-shot: " + (i < la.size() ? la[i] : "(end)") + "\n chunked : " + (i < lb.size() ? lb[i] : "(end)"));
    return 0;
}
