// fz_reuse: libFuzzer differential target for C15 -- two fuzz-chosen byte strings A and B: the dump of parse(B) on a parser object that has
// just parsed A must equal the dump of parse(B) on a freshly constructed parser with the same configuration.  (A may be malformed, mis-encoded,
// carry a DTD, be XML 1.1, ...: whatever it leaves behind in the parser must not show.)  PSVI is not switched on (known finding
// C15-psvi-null-xsmodel); no grammar caching features, so nothing is documented to persist.
#include "xvcommon.hpp"
#include <fuzzer/FuzzedDataProvider.h>
using namespace xv;
static bool g_init = false;
static void die(const std::string& why) { fprintf(stderr, "\n==XV-ORACLE== history-dependence\n%s\n", why.substr(0, 3000).c_str()); fflush(stderr); __builtin_trap(); }
extern "C" int LLVMFuzzerTestOneInput(const uint8_t* data, size_t size) {
    if (!g_init) { g_init = true; XMLPlatformUtils::Initialize(); }
    if (size > 20000) return 0;
    FuzzedDataProvider fdp(data, size);
    static const char* apis[] = {"sax2", "sax1", "dom", "domls", "psax2", "pdom"};
    static const char* scanners[] = {"IG", "WF", "DG", "SG"};
    unsigned api = fdp.ConsumeIntegralInRange<unsigned>(0, 5), sc = fdp.ConsumeIntegralInRange<unsigned>(0, 3), bits = fdp.ConsumeIntegralInRange<unsigned>(0, 63);
    std::string body = fdp.ConsumeRemainingBytesAsString();
    static const std::string SEP = "\n%%%%\n";
    size_t cut = body.find(SEP);
    std::string A = cut == std::string::npos ? body.substr(0, body.size() / 2) : body.substr(0, cut);
    std::string B = cut == std::string::npos ? body.substr(body.size() / 2) : body.substr(cut + SEP.size());
    size_t c2 = B.find(SEP); if (c2 != std::string::npos) B.resize(c2);
    char feat[200];
    snprintf(feat, sizeof feat, "scanner=%s;ns=%u;val=%u;schema=%u;ere=%u;iw=%u;comments=%u;loaddtd=1;secmgr=100",
             scanners[sc], bits & 1, (bits >> 1) % 3, (bits >> 3) & 1, (bits >> 4) & 1, (bits >> 5) & 1, 1u);
    Req r; r["feat"] = feat; r["api"] = apis[api]; r["doc"] = B; r["totalres"] = "1"; r["src"] = "mem"; r["loc"] = "1";
    r["ext:.dtd"] = "<!ELEMENT r ANY><!ATTLIST r k CDATA 'd'><!ENTITY e 'x'>"; r["ext:*"] = "<x/>";
    ParseOut fresh, used;
    runParse(r, fresh);
    r["pre"] = A;
    runParse(r, used);
    if (getenv("XV_DUMP")) fprintf(stderr, "---- A\n%s\n---- B\n%s\n---- fresh\n%s---- after A\n%s----\n", A.c_str(), B.c_str(), fresh.ced.c_str(), used.ced.c_str());
    if (fresh.ced == used.ced) return 0;
    std::vector<std::string> la = split(fresh.ced, '\n'), lb = split(used.ced, '\n');
    size_t i = 0; while (i < la.size() && i < lb.size() && la[i] == lb[i]) i++;
    die(std::string("api=") + apis[api] + " feat=" + feat + "\n fresh  : " + (i < la.size() ? la[i] : "(end)") + "\n after A: " + (i < lb.size() ? lb[i] : "(end)"));
    return 0;
}
