#define FZ_MODE 2
#include "fz_parse.cpp"
