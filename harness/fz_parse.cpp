// fz_parse: libFuzzer target for C01 -- any bytes as document / external subset / external entity / schema under any
// API x scanner x validation x feature combination.  Oracles inside the target (besides ASan/UBSan/LSan):
//   (ii)  exception audit: only documented Xerces exception types may escape parse()/loadGrammar()
//   (iii) outcome audit:   a parser that counted errors must have told the error handler
//   (iv)  bounded work:    events + content characters delivered <= (limit+2) * (input bytes + 64)
//   (v)   bounded memory:  live bytes allocated during the iteration <= 256 * (limit+2) * (input bytes + 64)
// Input layout: parts separated by "\n%%%%\n": document, external subset (*.dtd), external entity (any other id), schema (*.xsd);
// the configuration is taken from the END of the input (FuzzedDataProvider).
// FZ_MODE: 0 parse (default), 1 loadGrammar DTD, 2 loadGrammar XSD.
#ifndef FZ_MODE
#define FZ_MODE 0
#endif
#include "xvcommon.hpp"
#include <fuzzer/FuzzedDataProvider.h>
#include <xercesc/validators/common/Grammar.hpp>
#include <sanitizer/allocator_interface.h>
#include <atomic>
using namespace xv;

static const long kLimit = 100;
static std::atomic<long long> g_live(0);
static long long g_cap = 0;
static bool g_track = false;
static const char* g_why = 0;

static void die(const char* why, const std::string& detail) {
    fprintf(stderr, "\n==XV-ORACLE== %s\n%s\n", why, detail.substr(0, 2000).c_str());
    fflush(stderr);
    __builtin_trap();
}
static void mhook(const volatile void* p, size_t n) {
    if (!g_track) return;
    long long v = (g_live += (long long)n);
    if (g_cap && v > g_cap && !g_why) { g_why = "bounded-memory"; }
}
static void fhook(const volatile void* p) {
    if (!g_track || !p) return;
    g_live -= (long long)__sanitizer_get_allocated_size((const void*)p);
}

static bool g_init = false;
static void initOnce() {
    if (g_init) return; g_init = true;
    XMLPlatformUtils::Initialize();
    __sanitizer_install_malloc_and_free_hooks(mhook, fhook);
}

static std::vector<std::string> splitParts(const std::string& s) {
    static const std::string sep = "\n%%%%\n";
    std::vector<std::string> out; size_t pos = 0;
    while (out.size() < 3) { size_t k = s.find(sep, pos); if (k == std::string::npos) break; out.push_back(s.substr(pos, k - pos)); pos = k + sep.size(); }
    out.push_back(s.substr(pos));
    while (out.size() < 4) out.push_back(std::string());
    return out;
}

// classification line for the driver ("--classify" replays a corpus and prints one line per file)
static bool g_classify = false;

extern "C" int LLVMFuzzerTestOneInput(const uint8_t* data, size_t size) {
    initOnce();
    if (size > 65536) return 0;
    FuzzedDataProvider fdp(data, size);
    // ---- configuration (from the end) ----
    static const char* apis[] = {"sax1", "sax2", "dom", "domls", "domlsf", "psax2", "pdom", "psax1"};
    static const char* scanners[] = {"IG", "WF", "DG", "SG"};
    static const long lowwaters[] = {100, 1, 49000};
    static const char* chunkplans[] = {"", "1", "2", "3", "7", "4096", "5,1,1"};
    static const char* encs[] = {"", "", "", "UTF-8", "UTF-16", "ISO-8859-1", "IBM1140", "US-ASCII", "UCS-4"};
    unsigned api = fdp.ConsumeIntegralInRange<unsigned>(0, 7);
    unsigned sc = fdp.ConsumeIntegralInRange<unsigned>(0, 3);
    unsigned val = fdp.ConsumeIntegralInRange<unsigned>(0, 2);
    unsigned bits = fdp.ConsumeIntegral<uint16_t>();
    unsigned lw = fdp.ConsumeIntegralInRange<unsigned>(0, 2);
    unsigned ch = fdp.ConsumeIntegralInRange<unsigned>(0, 6);
    unsigned en = fdp.ConsumeIntegralInRange<unsigned>(0, 8);
    long steps = fdp.ConsumeIntegralInRange<int>(-1, 40);
    std::string body = fdp.ConsumeRemainingBytesAsString();
    std::vector<std::string> parts = splitParts(body);
    size_t total = body.size();

    char feat[512];
    snprintf(feat, sizeof feat,
             "scanner=%s;val=%u;ns=%u;nsp=%u;schema=%u;fullcheck=%u;ic=%u;loaddtd=%u;ere=%u;iw=%u;valfatal=%u;calcsrc=%u;psvi=%u;comments=%u;"
             "skipdtdval=%u;multiimp=%u;stduri=%u;exitfatal=1;secmgr=%ld;lowwater=%ld%s%s",
             scanners[sc], val, bits & 1, (bits >> 1) & 1, (bits >> 2) & 1, (bits >> 3) & 1, (bits >> 4) & 1, (bits >> 5) & 1, (bits >> 6) & 1,
             (bits >> 7) & 1, (bits >> 8) & 1, (bits >> 9) & 1, (bits >> 10) & 1, (bits >> 11) & 1, (bits >> 12) & 1, (bits >> 13) & 1, (bits >> 14) & 1,
             kLimit, lowwaters[lw], encs[en][0] ? ";forceenc=" : "", encs[en]);
    Req r;
    r["feat"] = feat; r["api"] = apis[api]; r["doc"] = parts[0]; r["totalres"] = "1";
    r["ext:.dtd"] = parts[1]; r["ext:*"] = parts[2]; r["ext:.xsd"] = parts[3]; r["ext:.ent"] = parts[2];
    if (chunkplans[ch][0]) r["chunks"] = chunkplans[ch];
    if (api >= 5) { char b[16]; snprintf(b, sizeof b, "%ld", steps); r["steps"] = b; }
    if (api == 4) { r["filter"] = "a:2,b:3,c:4,e0:2"; r["filterstart"] = (bits & 0x8000) ? "1" : "0"; }

    long long budget = (long long)(kLimit + 2) * (long long)(total + 64);
    g_live = 0; g_cap = 256 * budget; g_why = 0; g_track = true;
    ParseOut po;
#if FZ_MODE == 0
    runParse(r, po);
#else
    {   // loadGrammar on the bytes
        Feat f(feat); Dump d; EntStore st; st.total = true; st.byExt[".dtd"] = parts[1]; st.byExt["*"] = parts[2]; st.byExt[".xsd"] = parts[3];
        MemResolver res(st); SecurityManager sm; sm.setEntityExpansionLimit((XMLSize_t)kLimit);
        MemBufInputSource src((const XMLByte*)parts[0].data(), parts[0].size(), FZ_MODE == 1 ? "mem:/g.dtd" : "mem:/g.xsd");
        try {
            if (api & 1) { CapSAX2 p; p.xd = &d; configSAX2(p, f, &sm); Sax2Dump h(d); p.setErrorHandler(&h); p.setXMLEntityResolver(&res);
                           p.loadGrammar(src, FZ_MODE == 1 ? Grammar::DTDGrammarType : Grammar::SchemaGrammarType, (bits & 0x8000) != 0); po.parserErrCount = (long)p.getErrorCount(); }
            else { CapDOMParser p; p.xd = &d; configDOM(p, f, &sm); Sax1Dump h(d); p.setErrorHandler(&h); p.setXMLEntityResolver(&res);
                   p.loadGrammar(src, FZ_MODE == 1 ? Grammar::DTDGrammarType : Grammar::SchemaGrammarType, (bits & 0x8000) != 0); po.parserErrCount = (long)p.getErrorCount(); }
        }
        XV_CATCH_ALL(d)
        po.ced = d.finish(); po.nEvents = d.nEvents; po.nChars = d.nChars; po.nErr = d.nErr; po.nFatal = d.nFatal;
    }
#endif
    g_track = false;
    if (getenv("XV_DUMP")) fprintf(stderr, "---- ced (parserErrCount=%ld nErr=%ld)\n%s----\n", po.parserErrCount, po.nErr, po.ced.c_str());
    if (g_why) die(g_why, std::string("live bytes exceeded 256*(limit+2)*(input+64) for an input of ") + std::to_string(total) + " bytes; feat=" + feat + " api=" + apis[api]);
    if (po.ced.compare(0, 12, "EXC\tFOREIGN\n") == 0 || po.ced.find("\nEXC\tFOREIGN\n") != std::string::npos) die("foreign-exception", std::string("feat=") + feat + " api=" + apis[api]);
    if (po.parserErrCount > 0 && po.nErr == 0) die("outcome-audit", "parser counted errors but reported none; feat=" + std::string(feat) + " api=" + apis[api]);
    if ((long long)po.nEvents + (long long)po.nChars > budget)
        die("bounded-work", "events+chars " + std::to_string(po.nEvents + po.nChars) + " > (limit+2)*(input+64) = " + std::to_string(budget) + "; feat=" + feat + " api=" + apis[api]);
    if (g_classify) {
        bool reached = po.ced.find("\nSE\t") != std::string::npos || po.ced.compare(0, 3, "SE\t") == 0;
        printf("CLASS\t%s\t%s\t%u\t%s\t%ld\t%ld\n", apis[api], scanners[sc], val, reached ? "content" : (po.nErr ? "error" : "other"), po.nEvents, po.nErr);
    }
    return 0;
}

extern "C" int LLVMFuzzerInitialize(int* argc, char*** argv) {
    for (int i = 1; i < *argc; i++) if (!strcmp((*argv)[i], "--classify")) { g_classify = true; for (int j = i; j + 1 < *argc; j++) (*argv)[j] = (*argv)[j + 1]; (*argc)--; break; }
    return 0;
}
