// xv_regex: executor for property C11 (RegularExpression).
//
// kind=regex     pat   escaped pattern (xvcommon U/esc conventions: \uXXXX per UTF-16 unit)
//                opts  option letters handed to the constructor verbatim (X F H i m s x)
//                n     number of subjects
//                subj  n escaped subjects joined by '\n'
//                win   optional: n entries joined by '\n'; "-" (whole string) or "start,end" in UTF-16 units
//                mode  letters: m = pass a caller-supplied Match object
//                               p = report positions (implies m): start,end of group 0 and of every group
//                               r = reuse ONE compiled object for all subjects of the request (in the order given;
//                                   the client interleaves/repeats subjects); default: fresh object per subject
//                               c = use the (const char*) constructor/matches overloads where the data is 7-bit
//   answer: line 1  "C\tOK" | "C\tParseException\t<code>" | "C\tXMLException\t<type>\t<code>" | "C\tFOREIGN[\t<what>]"
//           then one line per subject: "1" | "0" [ "\t" s "," e { ";" s "," e } ]  |  "E\t<exception type>"
// kind=tokenize  pat opts n subj [win]  -> "C\t..." then per subject "T\t<k>{\t<escaped token>}" | "E\t<type>\t<code>"
// kind=replace   pat opts rep n subj [win] -> "C\t..." then per subject "R\t<escaped result>" | "E\t<type>\t<code>"
// kind=allmatches pat opts n subj [win] -> per subject "A\t<k>{\t s,e }" | "E\t..."
// kind=matchseq  np, pat0..pat<np-1>, opts0..opts<np-1>, n, steps = n lines "<pattern index>\t<escaped subject>"
//                ONE caller-owned Match object and ONE compiled object per pattern are used for the whole sequence (A); every step is
//                repeated with a fresh Match on the same compiled object (B) and with a fresh Match on a freshly compiled object (C).
//   answer: np lines "C\t<why>", then per step "S\t<A>\t<B>\t<C>", each = "0" | "1:" s "," e { ";" s "," e } | "E:<type>" | "X" (pattern did not compile)
#include "xvcommon.hpp"
#include <xercesc/util/regx/RegularExpression.hpp>
#include <xercesc/util/regx/Match.hpp>
#include <xercesc/util/ParseException.hpp>
#include <xercesc/util/RuntimeException.hpp>
#include <xercesc/util/RefVectorOf.hpp>
#include <xercesc/util/RefArrayVectorOf.hpp>
#include <xercesc/util/Janitor.hpp>
#include <memory>
using namespace xv;

static const XMLCh kParseException[] = { 'P','a','r','s','e','E','x','c','e','p','t','i','o','n',0 };

static std::string describeXMLException(const XMLException& e) {
    std::string s;
    if (XMLString::equals(e.getType(), kParseException)) s = "ParseException\t" + std::to_string((int)e.getCode());
    else s = "XMLException\t" + esc(e.getType()) + "\t" + std::to_string((int)e.getCode());
    return s;
}

// compile; on failure returns null and fills `why`
static RegularExpression* compileRe(const U& pat, const U& opts, bool haveOpts, std::string& why) {
    try {
        RegularExpression* re = haveOpts ? new RegularExpression(pat.c(), opts.c()) : new RegularExpression(pat.c());
        why = "OK";
        return re;
    }
    catch (const OutOfMemoryException&) { why = "XMLException\tOutOfMemoryException\t0"; }
    catch (const XMLException& e) { why = describeXMLException(e); }
    catch (const std::exception& e) { why = std::string("FOREIGN\tstd::exception"); }
    catch (int v) { why = "FOREIGN\tint\t" + std::to_string(v); }
    catch (XMLErrs::Codes v) { why = "FOREIGN\tXMLErrs::Codes\t" + std::to_string((int)v); }
    catch (...) { why = "FOREIGN"; }
    return 0;
}

struct Subjects {
    std::vector<U*> s; std::vector<long> ws, we;
    ~Subjects() { for (size_t i = 0; i < s.size(); i++) delete s[i]; }
    void load(const Req& r) {
        long n = geti(r, "n", 0);
        std::vector<std::string> parts = split(get(r, "subj"), '\n');
        std::vector<std::string> wins; bool haveWin = r.count("win") != 0;
        if (haveWin) wins = split(get(r, "win"), '\n');
        for (long i = 0; i < n; i++) {
            s.push_back(new U(i < (long)parts.size() ? parts[i] : std::string()));
            long a = -1, b = -1;
            if (haveWin && i < (long)wins.size() && wins[i] != "-" && !wins[i].empty()) {
                size_t c = wins[i].find(',');
                a = atol(wins[i].c_str()); b = c == std::string::npos ? a : atol(wins[i].c_str() + c + 1);
            }
            ws.push_back(a); we.push_back(b);
        }
    }
};

#define RX_CATCH(OUT) \
    catch (const OutOfMemoryException&) { OUT += "E\tOutOfMemoryException\n"; } \
    catch (const XMLException& e) { OUT += "E\t" + describeXMLException(e) + "\n"; } \
    catch (...) { OUT += "E\tFOREIGN\n"; }

static std::string hRegex(const Req& r) {
    U pat(get(r, "pat")); U opts(get(r, "opts")); bool haveOpts = r.count("opts") != 0;
    std::string mode = get(r, "mode");
    bool useMatch = mode.find('m') != std::string::npos || mode.find('p') != std::string::npos;
    bool pos = mode.find('p') != std::string::npos;
    bool reuse = mode.find('r') != std::string::npos;
    Subjects S; S.load(r);
    std::string out, why;
    std::unique_ptr<RegularExpression> shared(compileRe(pat, opts, haveOpts, why));
    out += "C\t" + why + "\n";
    if (!shared) return out;
    for (size_t i = 0; i < S.s.size(); i++) {
        std::unique_ptr<RegularExpression> own;
        RegularExpression* re = shared.get();
        if (!reuse) {
            std::string w2; own.reset(compileRe(pat, opts, haveOpts, w2));
            if (!own) { out += "E\tRECOMPILE\t" + w2 + "\n"; continue; }
            re = own.get();
        }
        try {
            Match m;
            bool v;
            const XMLCh* subj = S.s[i]->c();
            if (S.ws[i] >= 0) v = useMatch ? re->matches(subj, (XMLSize_t)S.ws[i], (XMLSize_t)S.we[i], &m) : re->matches(subj, (XMLSize_t)S.ws[i], (XMLSize_t)S.we[i]);
            else v = useMatch ? re->matches(subj, &m) : re->matches(subj);
            out += v ? "1" : "0";
            if (pos && v) {
                out += "\t";
                for (int g = 0; g < m.getNoGroups(); g++) {
                    if (g) out += ";";
                    out += std::to_string(m.getStartPos(g)) + "," + std::to_string(m.getEndPos(g));
                }
            }
            out += "\n";
        }
        RX_CATCH(out)
    }
    return out;
}

static std::string hTokenize(const Req& r) {
    U pat(get(r, "pat")); U opts(get(r, "opts")); bool haveOpts = r.count("opts") != 0;
    Subjects S; S.load(r);
    std::string out, why;
    std::unique_ptr<RegularExpression> re(compileRe(pat, opts, haveOpts, why));
    out += "C\t" + why + "\n";
    if (!re) return out;
    for (size_t i = 0; i < S.s.size(); i++) {
        try {
            const XMLCh* subj = S.s[i]->c();
            RefArrayVectorOf<XMLCh>* toks = S.ws[i] >= 0 ? re->tokenize(subj, (XMLSize_t)S.ws[i], (XMLSize_t)S.we[i]) : re->tokenize(subj);
            Janitor<RefArrayVectorOf<XMLCh> > jan(toks);
            out += "T\t" + std::to_string((long)toks->size());
            for (XMLSize_t k = 0; k < toks->size(); k++) { out += "\t"; escTo(out, toks->elementAt(k)); }
            out += "\n";
        }
        RX_CATCH(out)
    }
    return out;
}

static std::string hReplace(const Req& r) {
    U pat(get(r, "pat")); U opts(get(r, "opts")); bool haveOpts = r.count("opts") != 0;
    U rep(get(r, "rep"));
    Subjects S; S.load(r);
    std::string out, why;
    std::unique_ptr<RegularExpression> re(compileRe(pat, opts, haveOpts, why));
    out += "C\t" + why + "\n";
    if (!re) return out;
    for (size_t i = 0; i < S.s.size(); i++) {
        try {
            const XMLCh* subj = S.s[i]->c();
            XMLCh* res = S.ws[i] >= 0 ? re->replace(subj, rep.c(), (XMLSize_t)S.ws[i], (XMLSize_t)S.we[i]) : re->replace(subj, rep.c());
            ArrayJanitor<XMLCh> jan(res, XMLPlatformUtils::fgMemoryManager);
            out += "R\t"; escTo(out, res); out += "\n";
        }
        RX_CATCH(out)
    }
    return out;
}

static std::string hAllMatches(const Req& r) {
    U pat(get(r, "pat")); U opts(get(r, "opts")); bool haveOpts = r.count("opts") != 0;
    Subjects S; S.load(r);
    std::string out, why;
    std::unique_ptr<RegularExpression> re(compileRe(pat, opts, haveOpts, why));
    out += "C\t" + why + "\n";
    if (!re) return out;
    for (size_t i = 0; i < S.s.size(); i++) {
        try {
            const XMLCh* subj = S.s[i]->c();
            RefVectorOf<Match> subEx(10, true);
            XMLSize_t a = S.ws[i] >= 0 ? (XMLSize_t)S.ws[i] : 0, b = S.ws[i] >= 0 ? (XMLSize_t)S.we[i] : S.s[i]->len();
            re->allMatches(subj, a, b, &subEx);
            out += "A\t" + std::to_string((long)subEx.size());
            for (XMLSize_t k = 0; k < subEx.size(); k++)
                out += "\t" + std::to_string(subEx.elementAt(k)->getStartPos(0)) + "," + std::to_string(subEx.elementAt(k)->getEndPos(0));
            out += "\n";
        }
        RX_CATCH(out)
    }
    return out;
}

static std::string oneMatch(RegularExpression* re, const XMLCh* subj, Match& m) {
    std::string out;
    try {
        bool v = re->matches(subj, &m);
        if (!v) return "0";
        out = "1:";
        for (int g = 0; g < m.getNoGroups(); g++) {
            if (g) out += ";";
            out += std::to_string(m.getStartPos(g)) + "," + std::to_string(m.getEndPos(g));
        }
    }
    catch (const OutOfMemoryException&) { out = "E:OutOfMemoryException"; }
    catch (const XMLException& e) { out = "E:" + esc(e.getType()); }
    catch (...) { out = "E:FOREIGN"; }
    return out;
}

static std::string hMatchSeq(const Req& r) {
    long np = geti(r, "np", 0);
    std::vector<std::unique_ptr<U> > pats, opts;
    std::vector<std::unique_ptr<RegularExpression> > res;
    std::string out;
    for (long i = 0; i < np; i++) {
        pats.emplace_back(new U(get(r, "pat" + std::to_string(i))));
        opts.emplace_back(new U(get(r, "opts" + std::to_string(i))));
        std::string why;
        res.emplace_back(compileRe(*pats.back(), *opts.back(), true, why));
        out += "C\t" + why + "\n";
    }
    std::vector<std::string> steps = split(get(r, "steps"), '\n');
    long n = geti(r, "n", 0);
    Match shared;                                  // the caller-owned Match object of the whole sequence
    for (long k = 0; k < n && k < (long)steps.size(); k++) {
        size_t tab = steps[k].find('\t');
        long pi = atol(steps[k].c_str());
        U subj(tab == std::string::npos ? std::string() : steps[k].substr(tab + 1));
        if (pi < 0 || pi >= np || !res[pi]) { out += "S\tX\tX\tX\n"; continue; }
        std::string a = oneMatch(res[pi].get(), subj.c(), shared);
        std::string b; { Match fresh; b = oneMatch(res[pi].get(), subj.c(), fresh); }
        std::string c;
        {
            std::string why; std::unique_ptr<RegularExpression> re2(compileRe(*pats[pi], *opts[pi], true, why));
            if (!re2) c = "X"; else { Match fresh; c = oneMatch(re2.get(), subj.c(), fresh); }
        }
        out += "S\t" + a + "\t" + b + "\t" + c + "\n";
    }
    return out;
}

int main() {
    XMLPlatformUtils::Initialize();
    std::map<std::string, Handler> hs;
    hs["regex"] = hRegex;
    hs["tokenize"] = hTokenize;
    hs["replace"] = hReplace;
    hs["allmatches"] = hAllMatches;
    hs["matchseq"] = hMatchSeq;
    int rc = serve(hs);
    XMLPlatformUtils::Terminate();
    return rc;
}
