// xvexec: general executor -- kind=parse (see xvcommon.hpp runParse)
#include "xvcommon.hpp"
using namespace xv;

static std::string hParse(const Req& r) {
    ParseOut po; runParse(r, po);
    std::string out = po.ced;
    char b[200];
    snprintf(b, sizeof b, "#STAT\t%ld\t%ld\t%ld\t%ld\t%ld\n", po.nEvents, po.nChars, po.nErr, po.nFatal, po.reads);
    out += b;
    if (geti(r, "rlog", 0)) for (size_t i = 0; i < po.rlog.size(); i++) out += "#" + po.rlog[i] + "\n";
    return out;
}

int main() {
    XMLPlatformUtils::Initialize();
    std::map<std::string, Handler> hs;
    hs["parse"] = hParse;
    int rc = serve(hs);
    XMLPlatformUtils::Terminate();
    return rc;
}
