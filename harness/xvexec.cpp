// xvexec: general executor -- kind=parse (see xvcommon.hpp runParse)
#include "xvcommon.hpp"
using namespace xv;

// src=stdin: StdInInputSource reads fd 0, which is the protocol pipe here -- run that parse in a forked child whose fd 0 is the document
static std::string parseViaStdin(const Req& r) {
    std::string p = writeScratch("stdin.xml", r.find("doc")->second);
    int pfd[2]; if (pipe(pfd) != 0) return "EXC\tHARNESS-pipe\n";
    pid_t pid = fork();
    if (pid == 0) {
        close(pfd[0]);
        int fd = open(p.c_str(), O_RDONLY); dup2(fd, 0); close(fd);
        clearerr(stdin);
        ParseOut po; runParse(r, po);
        std::string out = po.ced;
        size_t off = 0; while (off < out.size()) { ssize_t n = write(pfd[1], out.data() + off, out.size() - off); if (n <= 0) break; off += (size_t)n; }
        close(pfd[1]); _exit(0);
    }
    close(pfd[1]);
    std::string out; char buf[65536]; ssize_t n;
    while ((n = read(pfd[0], buf, sizeof buf)) > 0) out.append(buf, (size_t)n);
    close(pfd[0]);
    int stt = 0; waitpid(pid, &stt, 0);
    if (!WIFEXITED(stt) || WEXITSTATUS(stt) != 0) { char b[64]; snprintf(b, sizeof b, "EXC\tCHILD-DIED\t%d\n", stt); out += b; }
    return out;
}

static std::string hParse(const Req& r) {
    if (get(r, "src") == "stdin") return parseViaStdin(r);
    ParseOut po; runParse(r, po);
    std::string out = po.ced;
    char b[200];
    snprintf(b, sizeof b, "#STAT\t%ld\t%ld\t%ld\t%ld\t%ld\n", po.nEvents, po.nChars, po.nErr, po.nFatal, po.reads);
    out += b;
    if (geti(r, "rlog", 0)) for (size_t i = 0; i < po.rlog.size(); i++) out += "#" + po.rlog[i] + "\n";
    return out;
}

int main() {
    XMLPlatformUtils::Initialize();
    std::map<std::string, Handler> hs;
    hs["parse"] = hParse;
    int rc = serve(hs);
    XMLPlatformUtils::Terminate();
    return rc;
}
