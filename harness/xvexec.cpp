// xvexec: general executor -- kind=parse (see xvcommon.hpp runParse)
#include "xvcommon.hpp"
#include <xercesc/validators/common/Grammar.hpp>
using namespace xv;

// src=stdin: StdInInputSource reads fd 0, which is the protocol pipe here -- run that parse in a forked child whose fd 0 is the document
static std::string parseViaStdin(const Req& r) {
    std::string p = writeScratch("stdin.xml", r.find("doc")->second);
    int pfd[2]; if (pipe(pfd) != 0) return "EXC\tHARNESS-pipe\n";
    pid_t pid = fork();
    if (pid == 0) {
        close(pfd[0]);
        int fd = open(p.c_str(), O_RDONLY); dup2(fd, 0); close(fd);
        clearerr(stdin);
        ParseOut po; runParse(r, po);
        std::string out = po.ced;
        size_t off = 0; while (off < out.size()) { ssize_t n = write(pfd[1], out.data() + off, out.size() - off); if (n <= 0) break; off += (size_t)n; }
        close(pfd[1]); _exit(0);
    }
    close(pfd[1]);
    std::string out; char buf[65536]; ssize_t n;
    while ((n = read(pfd[0], buf, sizeof buf)) > 0) out.append(buf, (size_t)n);
    close(pfd[0]);
    int stt = 0; waitpid(pid, &stt, 0);
    if (!WIFEXITED(stt) || WEXITSTATUS(stt) != 0) { char b[64]; snprintf(b, sizeof b, "EXC\tCHILD-DIED\t%d\n", stt); out += b; }
    return out;
}

static std::string hParse(const Req& r) {
    if (get(r, "src") == "stdin") return parseViaStdin(r);
    ParseOut po; runParse(r, po);
    std::string out = po.ced;
    char b[200];
    snprintf(b, sizeof b, "#STAT\t%ld\t%ld\t%ld\t%ld\t%ld\n", po.nEvents, po.nChars, po.nErr, po.nFatal, po.reads);
    out += b;
    if (geti(r, "rlog", 0)) for (size_t i = 0; i < po.rlog.size(); i++) out += "#" + po.rlog[i] + "\n";
    return out;
}

// ---------------------------------------------------------------------------------------------
// kind=session (C15): a history of operations on ONE parser object; every parse in the history is compared, in-process, with the
// same parse on a freshly constructed parser that was given the same feature string and the same persistent state (grammars loaded
// or cached since the last pool reset).  Response: one "OP\t<i>\t<verdict>" line per op; for DIFF both dumps follow.
//   ops (fields op0..opN-1):  parse <doc> [chunks] | pparse <doc> <steps> | throw <doc> <k> | feat <featstring> |
//                             loadgrammar <g> <dtd|xsd> <cache> | resetdocpool | resetgrammarpool | adopt
//   docs: doc<i> (bytes), docsys<i> (system id); grammars: g<i>, gsys<i>; ent:<sysid> shared entity store
// ---------------------------------------------------------------------------------------------
struct PBox {
    EntStore* st; MemResolver* res; MemLSResolver* lres; SecurityManager sm; Feat feat;
    virtual ~PBox() {}
    virtual void config(const Feat& f) = 0;
    // mode 0 parse, 1 progressive abandoned after `arg` steps, 2 handler throws at callback `arg`
    virtual std::string run(const std::string& doc, const std::string& sys, const std::string& chunks, int mode, long arg) = 0;
    virtual std::string loadGrammar(const std::string& g, const std::string& sys, bool xsd, bool cache) = 0;
    virtual void resetDocPool() {}
    virtual void resetGrammarPool() = 0;
    virtual bool adopt(std::string& dump) { return false; }
    virtual std::string redumpAdopted(size_t i) { return ""; }
    virtual size_t nAdopted() { return 0; }
};
template <class P, class H, int KIND> struct SaxBox : public PBox {
    P p;
    SaxBox(EntStore* s) { st = s; res = new MemResolver(*s); lres = 0; sm.setEntityExpansionLimit(1000); p.setXMLEntityResolver(res); }
    ~SaxBox() { delete res; }
    void config(const Feat& f) { feat = f; cfg(f); }
    void cfg(const Feat& f);
    void hook(H& h);
    std::string run(const std::string& doc, const std::string& sys, const std::string& chunks, int mode, long arg) {
        Dump d; d.withLoc = true; if (mode == 2) d.throwAt = arg;
        H h(d); p.xd = &d; hook(h);
        X sysx(sys); ChunkSource src(doc, parsePlan(chunks), sysx.c());
        try {
            if (mode == 1) { XMLPScanToken tok; if (p.parseFirst(src, tok)) { long k = 0; while (k < arg && p.parseNext(tok)) k++; p.parseReset(tok); } d.line("ABANDONED"); }
            else p.parse(src);
        }
        XV_CATCH_ALL(d)
        p.xd = 0;
        return d.finish();
    }
    std::string loadGrammar(const std::string& g, const std::string& sys, bool xsd, bool cache) {
        Dump d; H h(d); p.xd = &d; hook(h);
        MemBufInputSource src((const XMLByte*)g.data(), g.size(), X(sys).c());
        try { p.loadGrammar(src, xsd ? Grammar::SchemaGrammarType : Grammar::DTDGrammarType, cache); }
        XV_CATCH_ALL(d)
        p.xd = 0;
        return d.finish();
    }
    void resetGrammarPool() { p.resetCachedGrammarPool(); }
};
template <> void SaxBox<CapSAXParser, Sax1Dump, 1>::cfg(const Feat& f) { configClassic(p, f, &sm); }
template <> void SaxBox<CapSAXParser, Sax1Dump, 1>::hook(Sax1Dump& h) { p.setDocumentHandler(&h); p.setDTDHandler(&h); p.setErrorHandler(&h); }
template <> void SaxBox<CapSAX2, Sax2Dump, 2>::cfg(const Feat& f) { configSAX2(p, f, &sm); }
template <> void SaxBox<CapSAX2, Sax2Dump, 2>::hook(Sax2Dump& h) { p.setContentHandler(&h); p.setLexicalHandler(&h); p.setDeclarationHandler(&h); p.setDTDHandler(&h); p.setErrorHandler(&h); }

struct DomBox : public PBox {
    CapDOMParser p; std::vector<DOMDocument*> adopted; std::vector<std::string> adoptedDump;
    DomBox(EntStore* s) { st = s; res = new MemResolver(*s); lres = 0; sm.setEntityExpansionLimit(1000); p.setXMLEntityResolver(res); }
    ~DomBox() { for (size_t i = 0; i < adopted.size(); i++) adopted[i]->release(); delete res; }
    void config(const Feat& f) { feat = f; configDOM(p, f, &sm); }
    std::string dumpDoc(DOMDocument* dd) { Dump d; DomDumpOpts o; o.typeInfo = feat.b("psvi", false); o.ids = true; if (dd) dumpDomNode(d, dd, o); return d.finish(); }
    std::string run(const std::string& doc, const std::string& sys, const std::string& chunks, int mode, long arg) {
        Dump d; Sax1Dump eh(d); p.xd = &d; p.setErrorHandler(&eh);
        X sysx(sys); ChunkSource src(doc, parsePlan(chunks), sysx.c());
        bool done = true;
        try {
            if (mode == 1) { XMLPScanToken tok; if (p.parseFirst(src, tok)) { long k = 0; while (k < arg && p.parseNext(tok)) k++; p.parseReset(tok); } d.line("ABANDONED"); done = false; }
            else p.parse(src);
        }
        XV_CATCH_ALL(d)
        p.xd = 0; p.setErrorHandler(0);
        std::string out = d.finish();
        if (done && p.getDocument()) { DomDumpOpts o; o.typeInfo = feat.b("psvi", false); Dump dd; dumpDomNode(dd, p.getDocument(), o); out += dd.finish(); }
        return out;
    }
    std::string loadGrammar(const std::string& g, const std::string& sys, bool xsd, bool cache) {
        Dump d; Sax1Dump eh(d); p.xd = &d; p.setErrorHandler(&eh);
        MemBufInputSource src((const XMLByte*)g.data(), g.size(), X(sys).c());
        try { p.loadGrammar(src, xsd ? Grammar::SchemaGrammarType : Grammar::DTDGrammarType, cache); }
        XV_CATCH_ALL(d)
        p.xd = 0; p.setErrorHandler(0);
        return d.finish();
    }
    void resetDocPool() { p.resetDocumentPool(); }
    void resetGrammarPool() { p.resetCachedGrammarPool(); }
    std::vector<bool> adoptedPsvi;
    std::string dumpDocP(DOMDocument* dd, bool psvi) { Dump d; DomDumpOpts o; o.typeInfo = psvi; o.ids = true; if (dd) dumpDomNode(d, dd, o); return d.finish(); }
    bool adopt(std::string& dump) {
        DOMDocument* cur = p.getDocument(); if (!cur) return false;
        for (size_t i = 0; i < adopted.size(); i++) if (adopted[i] == cur) return false;      // already ours
        DOMDocument* dd = p.adoptDocument(); if (!dd) return false;
        bool ps = feat.b("psvi", false);
        adopted.push_back(dd); adoptedPsvi.push_back(ps); dump = dumpDocP(dd, ps); adoptedDump.push_back(dump); return true;
    }
    std::string redumpAdopted(size_t i) { return dumpDocP(adopted[i], adoptedPsvi[i]); }
    size_t nAdopted() { return adopted.size(); }
};
struct LSBox : public PBox {
    CapDOMLS* p; LSErr eh;
    LSBox(EntStore* s) { st = s; res = 0; lres = new MemLSResolver(*s); sm.setEntityExpansionLimit(1000); p = new CapDOMLS();
                         p->getDomConfig()->setParameter(XMLUni::fgDOMErrorHandler, &eh); p->getDomConfig()->setParameter(XMLUni::fgDOMResourceResolver, lres); }
    ~LSBox() { p->release(); delete lres; }
    void config(const Feat& f) { feat = f; configDOMLS(*p, f, &sm); }
    std::string run(const std::string& doc, const std::string& sys, const std::string& chunks, int mode, long arg) {
        Dump d; p->xd = &d;
        X sysx(sys); ChunkSource src(doc, parsePlan(chunks), sysx.c()); Wrapper4InputSource in(&src, false);
        DOMDocument* dd = 0;
        try { dd = p->parse(&in); }
        XV_CATCH_ALL(d)
        p->xd = 0;
        std::string out = d.finish();
        if (dd) { DomDumpOpts o; o.typeInfo = feat.b("psvi", false); Dump x; dumpDomNode(x, dd, o); out += x.finish(); }
        return out;
    }
    std::string loadGrammar(const std::string& g, const std::string& sys, bool xsd, bool cache) {
        Dump d; p->xd = &d;
        MemBufInputSource src((const XMLByte*)g.data(), g.size(), X(sys).c()); Wrapper4InputSource in(&src, false);
        try { p->loadGrammar(&in, xsd ? Grammar::SchemaGrammarType : Grammar::DTDGrammarType, cache); }
        XV_CATCH_ALL(d)
        p->xd = 0;
        return d.finish();
    }
    void resetDocPool() { p->resetDocumentPool(); }
    void resetGrammarPool() { p->resetCachedGrammarPool(); }
};
static PBox* makeBox(const std::string& api, EntStore* st) {
    if (api == "sax1") return new SaxBox<CapSAXParser, Sax1Dump, 1>(st);
    if (api == "sax2") return new SaxBox<CapSAX2, Sax2Dump, 2>(st);
    if (api == "domls") return new LSBox(st);
    return new DomBox(st);
}

// persistent entries: "loadgrammar <g> <dtd|xsd> <cache> <featstring-at-that-time>"
static void replayPersistent(PBox* ref, const std::vector<std::string>& persistent, const Req& r, const std::string& curFeat) {
    for (size_t k = 0; k < persistent.size(); k++) {
        std::vector<std::string> po = split(persistent[k], ' ');
        ref->config(Feat(po.size() > 4 ? po[4] : curFeat));
        ref->loadGrammar(get(r, "g" + po[1]), get(r, "gsys" + po[1], "mem:/g" + po[1]), po[2] == "xsd", true);
    }
    ref->config(Feat(curFeat));
}

// drop the doctype block and the declaration events from a canonical event dump
static std::string stripDecls(const std::string& ced) {
    std::string o; bool inDt = false; size_t i = 0;
    while (i < ced.size()) {
        size_t e = ced.find('\n', i); if (e == std::string::npos) e = ced.size();
        std::string l = ced.substr(i, e - i); i = e + 1;
        if (l.compare(0, 3, "DT\t") == 0) { inDt = true; continue; }
        if (l == "DT]") { inDt = false; continue; }
        if (inDt) continue;
        static const char* drop[] = {"ELD\t", "ATD\t", "IED\t", "EED\t", "NOT\t", "UENT\t", "ENT\t"};
        bool d = false; for (size_t k = 0; k < 7; k++) if (l.compare(0, strlen(drop[k]), drop[k]) == 0) d = true;
        if (!d) { o += l; o += '\n'; }
    }
    return o;
}

static std::string hSession(const Req& r) {
    std::string api = get(r, "api", "sax2");
    EntStore st; st.load(r);
    PBox* box = makeBox(api, &st);
    std::string curFeat = get(r, "feat"); box->config(Feat(curFeat));
    std::string curScanner = Feat(curFeat).s("scanner", "IG");
    std::vector<std::string> persistent;           // ops that legitimately persist (replayed on the reference parser)
    std::string out;
    long n = geti(r, "n", 0);
    bool dirty = false;                             // a failed / abandoned / aborted parse happened before
    for (long i = 0; i < n; i++) {
        std::vector<std::string> op = split(get(r, "op" + std::to_string(i)), ' ');
        std::string head = "OP\t" + std::to_string(i) + "\t" + op[0] + "\t";
        if (op[0] == "feat") {
            curFeat = op.size() > 1 ? op[1] : "";
            Feat nf(curFeat);
            // keep the scanner OBJECT when its kind does not change (re-creating it would wipe exactly the state this check is after)
            if (nf.s("scanner", "IG") == curScanner) nf.m.erase("scanner"); else curScanner = nf.s("scanner", "IG");
            box->config(nf); box->feat = Feat(curFeat);
            out += head + "OK\n";
        }
        else if (op[0] == "resetdocpool") { box->resetDocPool(); out += head + "OK\n"; }
        else if (op[0] == "resetgrammarpool") { box->resetGrammarPool(); persistent.clear(); out += head + "OK\n"; }
        else if (op[0] == "adopt") { std::string d; out += head + (box->adopt(d) ? "OK" : "NONE") + "\n"; }
        else if (op[0] == "loadgrammar") {
            std::string g = get(r, "g" + op[1]), sys = get(r, "gsys" + op[1], "mem:/g" + op[1]);
            bool xsd = op[2] == "xsd", cache = op[3] == "1";
            std::string got = box->loadGrammar(g, sys, xsd, cache);
            // reference: same call on a fresh parser with the same persistent state
            EntStore st2; st2.load(r); PBox* ref = makeBox(api, &st2); ref->config(Feat(curFeat));
            replayPersistent(ref, persistent, r, curFeat);
            std::string exp = ref->loadGrammar(g, sys, xsd, cache);
            delete ref;
            if (cache && got.find("ERR\t") == std::string::npos && got.find("EXC\t") == std::string::npos) persistent.push_back(get(r, "op" + std::to_string(i)) + " " + curFeat);
            out += head + (got == exp ? "OK" : "DIFF") + "\n";
            if (got != exp) out += "<<<history\n" + got + "===fresh\n" + exp + ">>>\n";
        }
        else if (op[0] == "parse" || op[0] == "pparse" || op[0] == "throw") {
            std::string doc = get(r, "doc" + op[1]), sys = get(r, "docsys" + op[1], "mem:/doc" + op[1] + ".xml");
            int mode = op[0] == "parse" ? 0 : op[0] == "pparse" ? 1 : 2;
            long arg = mode ? atol(op[2].c_str()) : 0;
            std::string chunks = (mode == 0 && op.size() > 2) ? op[2] : "";
            std::string got = box->run(doc, sys, chunks, mode, arg);
            EntStore st2; st2.load(r); PBox* ref = makeBox(api, &st2); ref->config(Feat(curFeat));
            replayPersistent(ref, persistent, r, curFeat);
            std::string exp = ref->run(doc, sys, "", mode, arg);
            delete ref;
            bool bad = got.find("\tF\t") != std::string::npos || got.find("EXC\t") != std::string::npos || mode != 0;
            out += head + (got == exp ? "OK" : "DIFF") + (dirty ? "\tafter-dirty" : "\tclean") + (bad ? "\tbad" : "\tgood") + "\n";
            if (got != exp) out += "<<<history\n" + got + "===fresh\n" + exp + ">>>\n";
            if (bad) dirty = true;
        }
        else if (op[0] == "tparse") {
            // transparency: the parse on the history parser (whatever it has cached / preloaded, current features) against a fresh parser that has
            // NOTHING preloaded and does not use cached grammars, i.e. reads the DTD / schema inline through the resolver.  Compared: everything except the
            // declaration events (a cached DTD is not re-announced), i.e. verdicts, positions, content, defaults, ignorable-whitespace classification.
            std::string doc = get(r, "doc" + op[1]), sys = get(r, "docsys" + op[1], "mem:/doc" + op[1] + ".xml");
            std::string got = stripDecls(box->run(doc, sys, "", 0, 0));
            Feat nf(curFeat); nf.m["usecached"] = "0"; nf.m["cachegrammar"] = "0";
            EntStore st2; st2.load(r); PBox* ref = makeBox(api, &st2); ref->config(nf);
            std::string exp = stripDecls(ref->run(doc, sys, "", 0, 0));
            delete ref;
            bool bad = got.find("\tF\t") != std::string::npos || got.find("EXC\t") != std::string::npos;
            out += head + (got == exp ? "OK" : "DIFF") + (dirty ? "\tafter-dirty" : "\tclean") + (bad ? "\tbad" : "\tgood") + (persistent.empty() ? "\tnocache" : "\tcached") + "\n";
            if (got != exp) out += "<<<history(cached)\n" + got + "===fresh(inline)\n" + exp + ">>>\n";
            if (bad) dirty = true;
        }
        else out += head + "BADOP\n";
    }
    // adopted documents must be intact at the end
    DomBox* db = dynamic_cast<DomBox*>(box);
    if (db) for (size_t i = 0; i < db->nAdopted(); i++) {
        std::string now = db->redumpAdopted(i);
        out += std::string("ADOPTED\t") + std::to_string(i) + "\t" + (now == db->adoptedDump[i] ? "OK" : "DIFF") + "\n";
        if (now != db->adoptedDump[i]) out += "<<<at-adoption\n" + db->adoptedDump[i] + "===at-end\n" + now + ">>>\n";
    }
    delete box;
    return out;
}

// ---------------------------------------------------------------------------------------------
// kind=ledger (C18): every object is constructed with a recording MemoryManager; after the lifetime script the ledger must be empty,
// and it must never have seen a foreign / repeated pointer.
// ---------------------------------------------------------------------------------------------
#include <unordered_map>
struct Ledger : public MemoryManager {
    std::unordered_map<void*, size_t> live; long allocs = 0, frees = 0; long long bytes = 0;
    std::vector<std::string> violations; const char* name;
    Ledger(const char* n) : name(n) {}
    MemoryManager* getExceptionMemoryManager() { return this; }
    void* allocate(XMLSize_t size) {
        void* p = malloc(size ? size : 1);
        if (!p) throw OutOfMemoryException();
        live[p] = size; allocs++; bytes += (long long)size; return p;
    }
    void deallocate(void* p) {
        if (!p) return;
        std::unordered_map<void*, size_t>::iterator it = live.find(p);
        if (it == live.end()) { if (violations.size() < 5) violations.push_back(std::string("deallocate of a pointer this manager does not own (foreign or repeated) in ledger ") + name); return; }
        live.erase(it); frees++; free(p);
    }
    std::string report() {
        std::string o = std::string("LEDGER\t") + name + "\t" + std::to_string(allocs) + "\t" + std::to_string(frees) + "\t" + std::to_string(live.size()) + "\t" + std::to_string(violations.size()) + "\n";
        for (size_t i = 0; i < violations.size(); i++) o += "VIOL\t" + violations[i] + "\n";
        if (!live.empty()) { size_t tot = 0; for (std::unordered_map<void*, size_t>::iterator it = live.begin(); it != live.end(); ++it) tot += it->second; o += "LEAK\t" + std::string(name) + "\t" + std::to_string(live.size()) + " blocks\t" + std::to_string(tot) + " bytes\n"; }
        return o;
    }
    void drop() { for (std::unordered_map<void*, size_t>::iterator it = live.begin(); it != live.end(); ++it) free(it->first); live.clear(); }   // keep LSan quiet after reporting
};

// one lifetime script on one ledger; returns the number of handler callbacks of the last run
// grammar script for the ledger lane (field gops = "load:<entity>:<dtd|xsd>:<0|1>,lock,unlock,..."): loadGrammar calls (accepted, refused because the
// key is already cached, refused because the pool is locked) before the parses; whatever the pool does with the grammar, the ledger must end empty
static void gLoad(CapSAXParser* p, InputSource& s, Grammar::GrammarType t, bool c) { p->loadGrammar(s, t, c); }
static void gLoad(CapSAX2* p, InputSource& s, Grammar::GrammarType t, bool c) { p->loadGrammar(s, t, c); }
static void gLoad(CapDOMParser* p, InputSource& s, Grammar::GrammarType t, bool c) { p->loadGrammar(s, t, c); }
static void gLoad(CapDOMLS* p, InputSource& s, Grammar::GrammarType t, bool c) { Wrapper4InputSource in(&s, false); p->loadGrammar(&in, t, c); }
template <class P> static void runGops(P* p, const Req& r, XMLGrammarPoolImpl* pool, std::string& note) {
    std::vector<std::string> ops = split(get(r, "gops"), ',');
    for (size_t i = 0; i < ops.size(); i++) {
        std::vector<std::string> o = split(ops[i], ':');
        if (o.empty() || o[0].empty()) continue;
        if (o[0] == "lock") { if (pool) pool->lockPool(); }
        else if (o[0] == "unlock") { if (pool) pool->unlockPool(); }
        else if (o[0] == "load" && o.size() >= 4) {
            Req::const_iterator it = r.find("ent:" + o[1]); if (it == r.end()) continue;
            MemBufInputSource src((const XMLByte*)it->second.data(), it->second.size(), X("mem:/" + o[1]).c(), false);
            Dump d;
            try { gLoad(p, src, o[2] == "xsd" ? Grammar::SchemaGrammarType : Grammar::DTDGrammarType, o[3] == "1"); }
            XV_CATCH_ALL(d)
            if (d.out.compare(0, 12, "EXC\tFOREIGN\n") == 0 || d.out.find("\nEXC\tFOREIGN\n") != std::string::npos) note += "FOREIGN-EXCEPTION ";
        }
    }
}

static long ledgerScript(const Req& r, Ledger& L, int mode, long arg, std::string& note) {
    std::string api = get(r, "api", "sax2"); Feat f(get(r, "feat"));
    const std::string& doc = r.find("doc")->second;
    long reuse = geti(r, "reuse", 1); bool adopt = geti(r, "adopt", 0) != 0; bool releaseAfter = geti(r, "releaseafter", 0) != 0; bool usePool = geti(r, "pool", 0) != 0;
    long nEvents = 0;
    EntStore st; st.load(r);
    XMLGrammarPoolImpl* pool = usePool ? new (&L) XMLGrammarPoolImpl(&L) : 0;
    std::vector<DOMDocument*> docs;
    {
        SecurityManager sm; sm.setEntityExpansionLimit(1000);
        MemResolver res(st); MemLSResolver lres(st);
        X sysx("mem:/doc.xml");
        if (api == "sax1" || api == "sax2") {
            CapSAXParser* p1 = api == "sax1" ? new (&L) CapSAXParser(0, &L, pool) : 0;
            CapSAX2* p2 = api == "sax2" ? new (&L) CapSAX2(&L, pool) : 0;
            if (p1) { configClassic(*p1, f, &sm); p1->setXMLEntityResolver(&res); } else { configSAX2(*p2, f, &sm); p2->setXMLEntityResolver(&res); }
            if (p1) runGops(p1, r, pool, note); else runGops(p2, r, pool, note);
            for (long k = 0; k < reuse; k++) {
                Dump d; bool last = k == reuse - 1; if (mode == 2 && last) d.throwAt = arg;
                Sax1Dump h1(d); Sax2Dump h2(d);
                if (p1) { p1->setDocumentHandler(&h1); p1->setDTDHandler(&h1); p1->setErrorHandler(&h1); }
                else { p2->setContentHandler(&h2); p2->setLexicalHandler(&h2); p2->setDeclarationHandler(&h2); p2->setDTDHandler(&h2); p2->setErrorHandler(&h2); }
                ChunkSource src(doc, std::vector<size_t>(), sysx.c());
                try {
                    if (mode == 1 && last) { XMLPScanToken tok; bool ok = p1 ? p1->parseFirst(src, tok) : p2->parseFirst(src, tok);
                        if (ok) { long j = 0; while (j < arg && (p1 ? p1->parseNext(tok) : p2->parseNext(tok))) j++; if (geti(r, "noreset", 0) == 0) { if (p1) p1->parseReset(tok); else p2->parseReset(tok); } } }
                    else { if (p1) p1->parse(src); else p2->parse(src); }
                }
                XV_CATCH_ALL(d)
                nEvents = d.nEvents;
                if (d.out.compare(0, 12, "EXC\tFOREIGN\n") == 0 || d.out.find("\nEXC\tFOREIGN\n") != std::string::npos) note += "FOREIGN-EXCEPTION ";
            }
            delete p1; delete p2;
        } else if (api == "dom") {
            CapDOMParser* p = new (&L) CapDOMParser(0, &L, pool); configDOM(*p, f, &sm); p->setXMLEntityResolver(&res);
            runGops(p, r, pool, note);
            for (long k = 0; k < reuse; k++) {
                Dump d; bool last = k == reuse - 1; Sax1Dump eh(d); p->setErrorHandler(&eh);
                ChunkSource src(doc, std::vector<size_t>(), sysx.c());
                try {
                    if (mode == 1 && last) { XMLPScanToken tok; if (p->parseFirst(src, tok)) { long j = 0; while (j < arg && p->parseNext(tok)) j++; if (geti(r, "noreset", 0) == 0) p->parseReset(tok); } }
                    else p->parse(src);
                }
                XV_CATCH_ALL(d)
                p->setErrorHandler(0);
                if (adopt && p->getDocument() && !(mode == 1 && last)) { DOMDocument* dd = p->adoptDocument(); if (dd) docs.push_back(dd); }
                if (geti(r, "resetdocpool", 0) && k == 0) p->resetDocumentPool();
            }
            if (!releaseAfter) { for (size_t i = 0; i < docs.size(); i++) docs[i]->release(); docs.clear(); }
            delete p;
            for (size_t i = 0; i < docs.size(); i++) docs[i]->release();
        } else {   // domls
            CapDOMLS* p = new (&L) CapDOMLS(0, &L, pool); configDOMLS(*p, f, &sm);
            LSErr eh; p->getDomConfig()->setParameter(XMLUni::fgDOMErrorHandler, &eh); p->getDomConfig()->setParameter(XMLUni::fgDOMResourceResolver, &lres);
            runGops(p, r, pool, note);
            for (long k = 0; k < reuse; k++) {
                Dump d; ChunkSource src(doc, std::vector<size_t>(), sysx.c()); Wrapper4InputSource in(&src, false);
                try { p->parse(&in); }
                XV_CATCH_ALL(d)
            }
            p->release();
        }
    }
    delete pool;
    return nEvents;
}

static std::string hLedger(const Req& r) {
    std::string out;
    long kmax = geti(r, "kmax", 0);            // enumerate the handler-exception point k = 1..min(K, kmax) / abandon point j = 0..kmax
    int mode0 = (int)geti(r, "mode", 0); long arg0 = geti(r, "arg", 0);
    std::vector<std::pair<int, long> > runs;
    runs.push_back(std::make_pair(mode0, arg0));
    {   // clean run first (gives K)
        Ledger A("A"); std::string note; long K = ledgerScript(r, A, mode0, arg0, note);
        out += "RUN\t" + std::to_string(mode0) + "\t" + std::to_string(arg0) + "\tK=" + std::to_string(K) + "\t" + note + "\n" + A.report(); A.drop();
        std::string api = get(r, "api", "sax2");
        if (kmax > 0) {
            if (api == "sax1" || api == "sax2") for (long k = 1; k <= K && k <= kmax; k++) runs.push_back(std::make_pair(2, k));
            if (api != "domls") for (long j = 0; j <= kmax && j <= K + 2; j += (api == "dom" ? 1 : 3)) runs.push_back(std::make_pair(1, j));
        }
    }
    for (size_t i = 1; i < runs.size(); i++) {
        Ledger A("A"); std::string note; ledgerScript(r, A, runs[i].first, runs[i].second, note);
        out += "RUN\t" + std::to_string(runs[i].first) + "\t" + std::to_string(runs[i].second) + "\t\t" + note + "\n" + A.report(); A.drop();
    }
    if (geti(r, "twin", 0)) {
        // two managers in one process: a second script with its own ledger runs between construction and destruction of objects of the first
        Ledger A("A"), B("B"); std::string note;
        {
            XMLGrammarPoolImpl* poolA = new (&A) XMLGrammarPoolImpl(&A);
            ledgerScript(r, B, mode0, arg0, note);
            CapDOMParser* pa = new (&A) CapDOMParser(0, &A, poolA); Feat f(get(r, "feat")); SecurityManager sm; configDOM(*pa, f, &sm);
            EntStore st; st.load(r); MemResolver res(st); pa->setXMLEntityResolver(&res);
            Dump d; Sax1Dump eh(d); pa->setErrorHandler(&eh); X sysx("mem:/doc.xml"); ChunkSource src(r.find("doc")->second, std::vector<size_t>(), sysx.c());
            try { pa->parse(src); } XV_CATCH_ALL(d)
            ledgerScript(r, B, 0, 0, note);
            delete pa; delete poolA;
        }
        out += "RUN\ttwin\t0\t\t" + note + "\n" + A.report() + B.report(); A.drop(); B.drop();
    }
    return out;
}

// ---------------------------------------------------------------------------------------------
// kind=access (C19): parse a document that lives in a real directory tree (written by the driver) and record, in ONE sequence,
// every file the library opens (wrapper around XMLPlatformUtils::fgFileMgr), every URL given to the net accessor (wrapper around
// fgNetAccessor; nothing is fetched), and every identifier offered to the application's entity resolver.
//   fields: top (path of the document), api, feat, resolver = none | null | subst ; subst:<suffix> = bytes returned by the resolver for
//           system ids ending in <suffix>; viamem=1: the document is handed over as memory buffer with the path as system id
// ---------------------------------------------------------------------------------------------
#include <xercesc/util/XMLFileMgr.hpp>
#include <xercesc/util/XMLNetAccessor.hpp>
#include <xercesc/util/XMLURL.hpp>
#include <xercesc/util/XMLNetAccessor.hpp>
static std::vector<std::string>* g_accessLog = 0;
struct LogFileMgr : public XMLFileMgr {
    XMLFileMgr* inner;
    LogFileMgr(XMLFileMgr* i) : inner(i) {}
    ~LogFileMgr() { delete inner; }
    FileHandle fileOpen(const XMLCh* path, bool toWrite, MemoryManager* const m) { if (g_accessLog) g_accessLog->push_back("OPEN\t" + narrow(path)); return inner->fileOpen(path, toWrite, m); }
    FileHandle fileOpen(const char* path, bool toWrite, MemoryManager* const m) { if (g_accessLog) g_accessLog->push_back(std::string("OPEN\t") + path); return inner->fileOpen(path, toWrite, m); }
    FileHandle openStdIn(MemoryManager* const m) { if (g_accessLog) g_accessLog->push_back("OPEN\t<stdin>"); return inner->openStdIn(m); }
    void fileClose(FileHandle f, MemoryManager* const m) { inner->fileClose(f, m); }
    void fileReset(FileHandle f, MemoryManager* const m) { inner->fileReset(f, m); }
    XMLFilePos curPos(FileHandle f, MemoryManager* const m) { return inner->curPos(f, m); }
    XMLFilePos fileSize(FileHandle f, MemoryManager* const m) { return inner->fileSize(f, m); }
    XMLSize_t fileRead(FileHandle f, XMLSize_t n, XMLByte* b, MemoryManager* const m) { return inner->fileRead(f, n, b, m); }
    void fileWrite(FileHandle f, XMLSize_t n, const XMLByte* b, MemoryManager* const m) { inner->fileWrite(f, n, b, m); }
    XMLCh* getFullPath(const XMLCh* const p, MemoryManager* const m) { return inner->getFullPath(p, m); }
    XMLCh* getCurrentDirectory(MemoryManager* const m) { return inner->getCurrentDirectory(m); }
    bool isRelative(const XMLCh* const p, MemoryManager* const m) { return inner->isRelative(p, m); }
};
struct LogNetAccessor : public XMLNetAccessor {
    const XMLCh* getId() const { static const XMLCh id[] = { chLatin_x, chLatin_v, 0 }; return id; }
    BinInputStream* makeNew(const XMLURL& url, const XMLNetHTTPInfo* = 0) {
        if (g_accessLog) g_accessLog->push_back("NET\t" + narrow(url.getURLText()));
        ThrowXML1(NetAccessorException, XMLExcepts::NetAcc_TargetResolution, url.getHost() ? url.getHost() : XMLUni::fgZeroLenString);
    }
};
struct AccessResolver : public XMLEntityResolver {
    std::string mode; std::map<std::string, std::string> subst;
    InputSource* resolveEntity(XMLResourceIdentifier* ri) {
        std::string sys = narrow(ri->getSystemId()), base = narrow(ri->getBaseURI()), loc = narrow(ri->getSchemaLocation()), ns = narrow(ri->getNameSpace());
        if (g_accessLog) g_accessLog->push_back("RES\t" + std::to_string((int)ri->getResourceIdentifierType()) + "\t" + sys + "\t" + base + "\t" + loc + "\t" + ns);
        if (mode == "subst") {
            const std::string& key = sys.empty() ? loc : sys;
            for (std::map<std::string, std::string>::iterator it = subst.begin(); it != subst.end(); ++it)
                if (key.size() >= it->first.size() && key.compare(key.size() - it->first.size(), it->first.size(), it->first) == 0) {
                    if (g_accessLog) g_accessLog->push_back("SUBST\t" + key);
                    return new MemBufInputSource((const XMLByte*)it->second.data(), it->second.size(), X("mem:/subst/" + it->first).c(), false);
                }
        }
        return 0;
    }
};
struct AccessLSResolver : public DOMLSResourceResolver {
    AccessResolver* r;
    DOMLSInput* resolveResource(const XMLCh* const type, const XMLCh* const ns, const XMLCh* const pub, const XMLCh* const systemId, const XMLCh* const baseURI) {
        std::string sys = narrow(systemId), base = narrow(baseURI);
        if (g_accessLog) g_accessLog->push_back("RES\t-1\t" + sys + "\t" + base + "\t\t" + narrow(ns));
        if (r->mode == "subst")
            for (std::map<std::string, std::string>::iterator it = r->subst.begin(); it != r->subst.end(); ++it)
                if (sys.size() >= it->first.size() && sys.compare(sys.size() - it->first.size(), it->first.size(), it->first) == 0) {
                    if (g_accessLog) g_accessLog->push_back("SUBST\t" + sys);
                    return new Wrapper4InputSource(new MemBufInputSource((const XMLByte*)it->second.data(), it->second.size(), X("mem:/subst/" + it->first).c(), false), true);
                }
        return 0;
    }
};
static std::string hAccess(const Req& r) {
    static LogFileMgr* lfm = 0; static LogNetAccessor* lna = 0;
    if (!lfm) { lfm = new LogFileMgr(XMLPlatformUtils::fgFileMgr); XMLPlatformUtils::fgFileMgr = lfm; lna = new LogNetAccessor(); delete XMLPlatformUtils::fgNetAccessor; XMLPlatformUtils::fgNetAccessor = lna; }
    std::vector<std::string> log; g_accessLog = &log;
    std::string api = get(r, "api", "sax2"), top = get(r, "top"); Feat f(get(r, "feat"));
    AccessResolver res; res.mode = get(r, "resolver", "none");
    for (Req::const_iterator it = r.begin(); it != r.end(); ++it) if (it->first.compare(0, 6, "subst:") == 0) res.subst[it->first.substr(6)] = it->second;
    AccessLSResolver lres; lres.r = &res;
    SecurityManager sm; long lim = f.i("secmgr", -1); if (lim >= 0) sm.setEntityExpansionLimit((XMLSize_t)lim); SecurityManager* smp = lim >= 0 ? &sm : 0;
    Dump d;
    InputSource* src = 0; std::string mem;
    if (geti(r, "viamem", 0)) { FILE* fp = fopen(top.c_str(), "rb"); if (fp) { char b[65536]; size_t n; while ((n = fread(b, 1, sizeof b, fp)) > 0) mem.append(b, n); fclose(fp); }
                               src = new MemBufInputSource((const XMLByte*)mem.data(), mem.size(), X(top).c(), false); }
    else src = new LocalFileInputSource(X(top).c());
    try {
        if (api == "sax1") { CapSAXParser p; p.xd = &d; configClassic(p, f, smp); Sax1Dump h(d); p.setDocumentHandler(&h); p.setDTDHandler(&h); p.setErrorHandler(&h); if (res.mode != "none") p.setXMLEntityResolver(&res); p.parse(*src); }
        else if (api == "sax2") { CapSAX2 p; p.xd = &d; configSAX2(p, f, smp); Sax2Dump h(d); p.setContentHandler(&h); p.setLexicalHandler(&h); p.setDeclarationHandler(&h); p.setDTDHandler(&h); p.setErrorHandler(&h); if (res.mode != "none") p.setXMLEntityResolver(&res); p.parse(*src); }
        else if (api == "dom") { CapDOMParser p; p.xd = &d; configDOM(p, f, smp); Sax1Dump eh(d); p.setErrorHandler(&eh); if (res.mode != "none") p.setXMLEntityResolver(&res); p.parse(*src); if (p.getDocument()) { DomDumpOpts o; dumpDomNode(d, p.getDocument(), o); } }
        else { CapDOMLS p; p.xd = &d; configDOMLS(p, f, smp); LSErr eh; p.getDomConfig()->setParameter(XMLUni::fgDOMErrorHandler, &eh); if (res.mode != "none") p.getDomConfig()->setParameter(XMLUni::fgDOMResourceResolver, &lres);
               Wrapper4InputSource in(src, false); DOMDocument* dd = p.parse(&in); if (dd) { DomDumpOpts o; dumpDomNode(d, dd, o); } }
    }
    XV_CATCH_ALL(d)
    delete src;
    g_accessLog = 0;
    std::string out = d.finish();
    for (size_t i = 0; i < log.size(); i++) out += "#" + std::to_string(i) + "\t" + log[i] + "\n";
    return out;
}

int main() {
    XMLPlatformUtils::Initialize();
    std::map<std::string, Handler> hs;
    hs["parse"] = hParse;
    hs["session"] = hSession;
    hs["ledger"] = hLedger;
    hs["access"] = hAccess;
    int rc = serve(hs);
    XMLPlatformUtils::Terminate();
    return rc;
}
