// xvexec: general executor -- kind=parse (see xvcommon.hpp runParse)
#include "xvcommon.hpp"
#include <xercesc/validators/common/Grammar.hpp>
using namespace xv;

// src=stdin: StdInInputSource reads fd 0, which is the protocol pipe here -- run that parse in a forked child whose fd 0 is the document
static std::string parseViaStdin(const Req& r) {
    std::string p = writeScratch("stdin.xml", r.find("doc")->second);
    int pfd[2]; if (pipe(pfd) != 0) return "EXC\tHARNESS-pipe\n";
    pid_t pid = fork();
    if (pid == 0) {
        close(pfd[0]);
        int fd = open(p.c_str(), O_RDONLY); dup2(fd, 0); close(fd);
        clearerr(stdin);
        ParseOut po; runParse(r, po);
        std::string out = po.ced;
        size_t off = 0; while (off < out.size()) { ssize_t n = write(pfd[1], out.data() + off, out.size() - off); if (n <= 0) break; off += (size_t)n; }
        close(pfd[1]); _exit(0);
    }
    close(pfd[1]);
    std::string out; char buf[65536]; ssize_t n;
    while ((n = read(pfd[0], buf, sizeof buf)) > 0) out.append(buf, (size_t)n);
    close(pfd[0]);
    int stt = 0; waitpid(pid, &stt, 0);
    if (!WIFEXITED(stt) || WEXITSTATUS(stt) != 0) { char b[64]; snprintf(b, sizeof b, "EXC\tCHILD-DIED\t%d\n", stt); out += b; }
    return out;
}

static std::string hParse(const Req& r) {
    if (get(r, "src") == "stdin") return parseViaStdin(r);
    ParseOut po; runParse(r, po);
    std::string out = po.ced;
    char b[200];
    snprintf(b, sizeof b, "#STAT\t%ld\t%ld\t%ld\t%ld\t%ld\n", po.nEvents, po.nChars, po.nErr, po.nFatal, po.reads);
    out += b;
    if (geti(r, "rlog", 0)) for (size_t i = 0; i < po.rlog.size(); i++) out += "#" + po.rlog[i] + "\n";
    return out;
}

// ---------------------------------------------------------------------------------------------
// kind=session (C15): a history of operations on ONE parser object; every parse in the history is compared, in-process, with the
// same parse on a freshly constructed parser that was given the same feature string and the same persistent state (grammars loaded
// or cached since the last pool reset).  Response: one "OP\t<i>\t<verdict>" line per op; for DIFF both dumps follow.
//   ops (fields op0..opN-1):  parse <doc> [chunks] | pparse <doc> <steps> | throw <doc> <k> | feat <featstring> |
//                             loadgrammar <g> <dtd|xsd> <cache> | resetdocpool | resetgrammarpool | adopt
//   docs: doc<i> (bytes), docsys<i> (system id); grammars: g<i>, gsys<i>; ent:<sysid> shared entity store
// ---------------------------------------------------------------------------------------------
struct PBox {
    EntStore* st; MemResolver* res; MemLSResolver* lres; SecurityManager sm; Feat feat;
    virtual ~PBox() {}
    virtual void config(const Feat& f) = 0;
    // mode 0 parse, 1 progressive abandoned after `arg` steps, 2 handler throws at callback `arg`
    virtual std::string run(const std::string& doc, const std::string& sys, const std::string& chunks, int mode, long arg) = 0;
    virtual std::string loadGrammar(const std::string& g, const std::string& sys, bool xsd, bool cache) = 0;
    virtual void resetDocPool() {}
    virtual void resetGrammarPool() = 0;
    virtual bool adopt(std::string& dump) { return false; }
    virtual std::string redumpAdopted(size_t i) { return ""; }
    virtual size_t nAdopted() { return 0; }
};
template <class P, class H, int KIND> struct SaxBox : public PBox {
    P p;
    SaxBox(EntStore* s) { st = s; res = new MemResolver(*s); lres = 0; sm.setEntityExpansionLimit(1000); p.setXMLEntityResolver(res); }
    ~SaxBox() { delete res; }
    void config(const Feat& f) { feat = f; cfg(f); }
    void cfg(const Feat& f);
    void hook(H& h);
    std::string run(const std::string& doc, const std::string& sys, const std::string& chunks, int mode, long arg) {
        Dump d; d.withLoc = true; if (mode == 2) d.throwAt = arg;
        H h(d); p.xd = &d; hook(h);
        X sysx(sys); ChunkSource src(doc, parsePlan(chunks), sysx.c());
        try {
            if (mode == 1) { XMLPScanToken tok; if (p.parseFirst(src, tok)) { long k = 0; while (k < arg && p.parseNext(tok)) k++; p.parseReset(tok); } d.line("ABANDONED"); }
            else p.parse(src);
        }
        XV_CATCH_ALL(d)
        p.xd = 0;
        return d.finish();
    }
    std::string loadGrammar(const std::string& g, const std::string& sys, bool xsd, bool cache) {
        Dump d; H h(d); p.xd = &d; hook(h);
        MemBufInputSource src((const XMLByte*)g.data(), g.size(), X(sys).c());
        try { p.loadGrammar(src, xsd ? Grammar::SchemaGrammarType : Grammar::DTDGrammarType, cache); }
        XV_CATCH_ALL(d)
        p.xd = 0;
        return d.finish();
    }
    void resetGrammarPool() { p.resetCachedGrammarPool(); }
};
template <> void SaxBox<CapSAXParser, Sax1Dump, 1>::cfg(const Feat& f) { configClassic(p, f, &sm); }
template <> void SaxBox<CapSAXParser, Sax1Dump, 1>::hook(Sax1Dump& h) { p.setDocumentHandler(&h); p.setDTDHandler(&h); p.setErrorHandler(&h); }
template <> void SaxBox<CapSAX2, Sax2Dump, 2>::cfg(const Feat& f) { configSAX2(p, f, &sm); }
template <> void SaxBox<CapSAX2, Sax2Dump, 2>::hook(Sax2Dump& h) { p.setContentHandler(&h); p.setLexicalHandler(&h); p.setDeclarationHandler(&h); p.setDTDHandler(&h); p.setErrorHandler(&h); }

struct DomBox : public PBox {
    CapDOMParser p; std::vector<DOMDocument*> adopted; std::vector<std::string> adoptedDump;
    DomBox(EntStore* s) { st = s; res = new MemResolver(*s); lres = 0; sm.setEntityExpansionLimit(1000); p.setXMLEntityResolver(res); }
    ~DomBox() { for (size_t i = 0; i < adopted.size(); i++) adopted[i]->release(); delete res; }
    void config(const Feat& f) { feat = f; configDOM(p, f, &sm); }
    std::string dumpDoc(DOMDocument* dd) { Dump d; DomDumpOpts o; o.typeInfo = feat.b("psvi", false); o.ids = true; if (dd) dumpDomNode(d, dd, o); return d.finish(); }
    std::string run(const std::string& doc, const std::string& sys, const std::string& chunks, int mode, long arg) {
        Dump d; Sax1Dump eh(d); p.xd = &d; p.setErrorHandler(&eh);
        X sysx(sys); ChunkSource src(doc, parsePlan(chunks), sysx.c());
        bool done = true;
        try {
            if (mode == 1) { XMLPScanToken tok; if (p.parseFirst(src, tok)) { long k = 0; while (k < arg && p.parseNext(tok)) k++; p.parseReset(tok); } d.line("ABANDONED"); done = false; }
            else p.parse(src);
        }
        XV_CATCH_ALL(d)
        p.xd = 0; p.setErrorHandler(0);
        std::string out = d.finish();
        if (done && p.getDocument()) { DomDumpOpts o; o.typeInfo = feat.b("psvi", false); Dump dd; dumpDomNode(dd, p.getDocument(), o); out += dd.finish(); }
        return out;
    }
    std::string loadGrammar(const std::string& g, const std::string& sys, bool xsd, bool cache) {
        Dump d; Sax1Dump eh(d); p.xd = &d; p.setErrorHandler(&eh);
        MemBufInputSource src((const XMLByte*)g.data(), g.size(), X(sys).c());
        try { p.loadGrammar(src, xsd ? Grammar::SchemaGrammarType : Grammar::DTDGrammarType, cache); }
        XV_CATCH_ALL(d)
        p.xd = 0; p.setErrorHandler(0);
        return d.finish();
    }
    void resetDocPool() { p.resetDocumentPool(); }
    void resetGrammarPool() { p.resetCachedGrammarPool(); }
    std::vector<bool> adoptedPsvi;
    std::string dumpDocP(DOMDocument* dd, bool psvi) { Dump d; DomDumpOpts o; o.typeInfo = psvi; o.ids = true; if (dd) dumpDomNode(d, dd, o); return d.finish(); }
    bool adopt(std::string& dump) {
        DOMDocument* cur = p.getDocument(); if (!cur) return false;
        for (size_t i = 0; i < adopted.size(); i++) if (adopted[i] == cur) return false;      // already ours
        DOMDocument* dd = p.adoptDocument(); if (!dd) return false;
        bool ps = feat.b("psvi", false);
        adopted.push_back(dd); adoptedPsvi.push_back(ps); dump = dumpDocP(dd, ps); adoptedDump.push_back(dump); return true;
    }
    std::string redumpAdopted(size_t i) { return dumpDocP(adopted[i], adoptedPsvi[i]); }
    size_t nAdopted() { return adopted.size(); }
};
struct LSBox : public PBox {
    CapDOMLS* p; LSErr eh;
    LSBox(EntStore* s) { st = s; res = 0; lres = new MemLSResolver(*s); sm.setEntityExpansionLimit(1000); p = new CapDOMLS();
                         p->getDomConfig()->setParameter(XMLUni::fgDOMErrorHandler, &eh); p->getDomConfig()->setParameter(XMLUni::fgDOMResourceResolver, lres); }
    ~LSBox() { p->release(); delete lres; }
    void config(const Feat& f) { feat = f; configDOMLS(*p, f, &sm); }
    std::string run(const std::string& doc, const std::string& sys, const std::string& chunks, int mode, long arg) {
        Dump d; p->xd = &d;
        X sysx(sys); ChunkSource src(doc, parsePlan(chunks), sysx.c()); Wrapper4InputSource in(&src, false);
        DOMDocument* dd = 0;
        try { dd = p->parse(&in); }
        XV_CATCH_ALL(d)
        p->xd = 0;
        std::string out = d.finish();
        if (dd) { DomDumpOpts o; o.typeInfo = feat.b("psvi", false); Dump x; dumpDomNode(x, dd, o); out += x.finish(); }
        return out;
    }
    std::string loadGrammar(const std::string& g, const std::string& sys, bool xsd, bool cache) {
        Dump d; p->xd = &d;
        MemBufInputSource src((const XMLByte*)g.data(), g.size(), X(sys).c()); Wrapper4InputSource in(&src, false);
        try { p->loadGrammar(&in, xsd ? Grammar::SchemaGrammarType : Grammar::DTDGrammarType, cache); }
        XV_CATCH_ALL(d)
        p->xd = 0;
        return d.finish();
    }
    void resetDocPool() { p->resetDocumentPool(); }
    void resetGrammarPool() { p->resetCachedGrammarPool(); }
};
static PBox* makeBox(const std::string& api, EntStore* st) {
    if (api == "sax1") return new SaxBox<CapSAXParser, Sax1Dump, 1>(st);
    if (api == "sax2") return new SaxBox<CapSAX2, Sax2Dump, 2>(st);
    if (api == "domls") return new LSBox(st);
    return new DomBox(st);
}

// persistent entries: "loadgrammar <g> <dtd|xsd> <cache> <featstring-at-that-time>"
static void replayPersistent(PBox* ref, const std::vector<std::string>& persistent, const Req& r, const std::string& curFeat) {
    for (size_t k = 0; k < persistent.size(); k++) {
        std::vector<std::string> po = split(persistent[k], ' ');
        ref->config(Feat(po.size() > 4 ? po[4] : curFeat));
        ref->loadGrammar(get(r, "g" + po[1]), get(r, "gsys" + po[1], "mem:/g" + po[1]), po[2] == "xsd", true);
    }
    ref->config(Feat(curFeat));
}

static std::string hSession(const Req& r) {
    std::string api = get(r, "api", "sax2");
    EntStore st; st.load(r);
    PBox* box = makeBox(api, &st);
    std::string curFeat = get(r, "feat"); box->config(Feat(curFeat));
    std::string curScanner = Feat(curFeat).s("scanner", "IG");
    std::vector<std::string> persistent;           // ops that legitimately persist (replayed on the reference parser)
    std::string out;
    long n = geti(r, "n", 0);
    bool dirty = false;                             // a failed / abandoned / aborted parse happened before
    for (long i = 0; i < n; i++) {
        std::vector<std::string> op = split(get(r, "op" + std::to_string(i)), ' ');
        std::string head = "OP\t" + std::to_string(i) + "\t" + op[0] + "\t";
        if (op[0] == "feat") {
            curFeat = op.size() > 1 ? op[1] : "";
            Feat nf(curFeat);
            // keep the scanner OBJECT when its kind does not change (re-creating it would wipe exactly the state this check is after)
            if (nf.s("scanner", "IG") == curScanner) nf.m.erase("scanner"); else curScanner = nf.s("scanner", "IG");
            box->config(nf); box->feat = Feat(curFeat);
            out += head + "OK\n";
        }
        else if (op[0] == "resetdocpool") { box->resetDocPool(); out += head + "OK\n"; }
        else if (op[0] == "resetgrammarpool") { box->resetGrammarPool(); persistent.clear(); out += head + "OK\n"; }
        else if (op[0] == "adopt") { std::string d; out += head + (box->adopt(d) ? "OK" : "NONE") + "\n"; }
        else if (op[0] == "loadgrammar") {
            std::string g = get(r, "g" + op[1]), sys = get(r, "gsys" + op[1], "mem:/g" + op[1]);
            bool xsd = op[2] == "xsd", cache = op[3] == "1";
            std::string got = box->loadGrammar(g, sys, xsd, cache);
            // reference: same call on a fresh parser with the same persistent state
            EntStore st2; st2.load(r); PBox* ref = makeBox(api, &st2); ref->config(Feat(curFeat));
            replayPersistent(ref, persistent, r, curFeat);
            std::string exp = ref->loadGrammar(g, sys, xsd, cache);
            delete ref;
            if (cache && got.find("ERR\t") == std::string::npos && got.find("EXC\t") == std::string::npos) persistent.push_back(get(r, "op" + std::to_string(i)) + " " + curFeat);
            out += head + (got == exp ? "OK" : "DIFF") + "\n";
            if (got != exp) out += "<<<history\n" + got + "===fresh\n" + exp + ">>>\n";
        }
        else if (op[0] == "parse" || op[0] == "pparse" || op[0] == "throw") {
            std::string doc = get(r, "doc" + op[1]), sys = get(r, "docsys" + op[1], "mem:/doc" + op[1] + ".xml");
            int mode = op[0] == "parse" ? 0 : op[0] == "pparse" ? 1 : 2;
            long arg = mode ? atol(op[2].c_str()) : 0;
            std::string chunks = (mode == 0 && op.size() > 2) ? op[2] : "";
            std::string got = box->run(doc, sys, chunks, mode, arg);
            EntStore st2; st2.load(r); PBox* ref = makeBox(api, &st2); ref->config(Feat(curFeat));
            replayPersistent(ref, persistent, r, curFeat);
            std::string exp = ref->run(doc, sys, "", mode, arg);
            delete ref;
            bool bad = got.find("\tF\t") != std::string::npos || got.find("EXC\t") != std::string::npos || mode != 0;
            out += head + (got == exp ? "OK" : "DIFF") + (dirty ? "\tafter-dirty" : "\tclean") + (bad ? "\tbad" : "\tgood") + "\n";
            if (got != exp) out += "<<<history\n" + got + "===fresh\n" + exp + ">>>\n";
            if (bad) dirty = true;
        }
        else out += head + "BADOP\n";
    }
    // adopted documents must be intact at the end
    DomBox* db = dynamic_cast<DomBox*>(box);
    if (db) for (size_t i = 0; i < db->nAdopted(); i++) {
        std::string now = db->redumpAdopted(i);
        out += std::string("ADOPTED\t") + std::to_string(i) + "\t" + (now == db->adoptedDump[i] ? "OK" : "DIFF") + "\n";
        if (now != db->adoptedDump[i]) out += "<<<at-adoption\n" + db->adoptedDump[i] + "===at-end\n" + now + ">>>\n";
    }
    delete box;
    return out;
}

int main() {
    XMLPlatformUtils::Initialize();
    std::map<std::string, Handler> hs;
    hs["parse"] = hParse;
    hs["session"] = hSession;
    int rc = serve(hs);
    XMLPlatformUtils::Terminate();
    return rc;
}
