// xvtc -- C05 code-unit level enumeration harness: transcoders obtained through
// XMLPlatformUtils::fgTransService->makeNewTranscoderFor are checked against a small reference codec
// written from the Unicode standard (Table 3-7, D91/D92) and against ICU's own converters (ucnv_*).
//
//   xvtc                          serve the xvcommon.hpp request protocol (kinds: lane, item, tables, raw)
//   xvtc lane=<l> tc=<name> worker=<w> nworkers=<n> [tier=quick|thorough] [skip=<finding,...>] [seed=<n>]
//                                 run one lane shard and print the machine readable summary
//   xvtc kind=item lane=... key=value...   re-check a single item (replay)
//
// Summary lines (tab separated):
//   SUB <sub-space> <evaluated> <nontrivial> <exhaustive 0|1>      LBL <label> <n>      EXCL <finding-id> <n>
//   DIS <n>   (reference witnesses disagree: item dropped)         SAMPLE <text>        NFAIL <n>
//   FAIL key=value ...   (first failing items, each alone suffices to re-run the item with kind=item)
#include "xvcommon.hpp"
#include <xercesc/util/TransService.hpp>
#include <xercesc/util/UTFDataFormatException.hpp>
#include <xercesc/util/TranscodingException.hpp>
#include <unicode/ucnv.h>
#include <unicode/ucnv_err.h>
#include <stdint.h>
#include <set>
#include <memory>
using namespace xv;

typedef std::vector<uint8_t> Bytes;
typedef std::vector<XMLCh> Units;

// ------------------------------------------------------------------------------------------------
// helpers
// ------------------------------------------------------------------------------------------------
static std::string hexB(const uint8_t* p, size_t n) { static const char* h = "0123456789ABCDEF"; std::string o; for (size_t i = 0; i < n; i++) { o.push_back(h[p[i] >> 4]); o.push_back(h[p[i] & 15]); } return o; }
static std::string hexB(const Bytes& b) { return b.empty() ? std::string() : hexB(&b[0], b.size()); }
static std::string hexU(const XMLCh* p, size_t n) { char b[8]; std::string o; for (size_t i = 0; i < n; i++) { snprintf(b, sizeof b, "%04X", (unsigned)(uint16_t)p[i]); if (i) o += ' '; o += b; } return o; }
static std::string hexU(const Units& u) { return u.empty() ? std::string() : hexU(&u[0], u.size()); }
static std::string hx(unsigned long v) { char b[24]; snprintf(b, sizeof b, "%lX", v); return b; }
static Bytes unhexB(const std::string& s) { Bytes b; std::string t; for (size_t i = 0; i < s.size(); i++) if (isxdigit((unsigned char)s[i])) t.push_back(s[i]); for (size_t i = 0; i + 1 < t.size(); i += 2) b.push_back((uint8_t)strtoul(t.substr(i, 2).c_str(), 0, 16)); return b; }
static Units unhexU(const std::string& s) { Units u; std::string cur; for (size_t i = 0; i <= s.size(); i++) { if (i < s.size() && isxdigit((unsigned char)s[i])) { cur.push_back(s[i]); if (cur.size() == 4) { u.push_back((XMLCh)strtoul(cur.c_str(), 0, 16)); cur.clear(); } } else if (!cur.empty()) { u.push_back((XMLCh)strtoul(cur.c_str(), 0, 16)); cur.clear(); } } return u; }
static std::vector<uint32_t> unhexList(const std::string& s) { std::vector<uint32_t> v; std::vector<std::string> p = split(s, ','); for (size_t i = 0; i < p.size(); i++) if (!p[i].empty()) v.push_back((uint32_t)strtoul(p[i].c_str(), 0, 16)); return v; }
static void unitsOf(uint32_t cp, Units& u) { if (cp >= 0x10000) { cp -= 0x10000; u.push_back((XMLCh)(0xD800 + (cp >> 10))); u.push_back((XMLCh)(0xDC00 + (cp & 0x3FF))); } else u.push_back((XMLCh)cp); }
static bool isSurr(uint32_t c) { return c >= 0xD800 && c <= 0xDFFF; }

// ------------------------------------------------------------------------------------------------
// reference UTF-8 (Unicode 15, Table 3-7 "Well-Formed UTF-8 Byte Sequences")
// ------------------------------------------------------------------------------------------------
enum SeqKind { WELL, TRUNC, BAD };
// classify the sequence starting at p[0] with n bytes available: WELL -> len,cp ; TRUNC -> the n bytes are a proper
// prefix of at least one well-formed sequence ; BAD otherwise
static SeqKind u8classify(const uint8_t* p, size_t n, size_t& len, uint32_t& cp) {
    uint8_t b0 = p[0]; unsigned need; uint8_t lo = 0x80, hi = 0xBF;
    if (b0 <= 0x7F) { len = 1; cp = b0; return WELL; }
    if (b0 >= 0xC2 && b0 <= 0xDF) need = 2;
    else if (b0 >= 0xE0 && b0 <= 0xEF) { need = 3; if (b0 == 0xE0) lo = 0xA0; if (b0 == 0xED) hi = 0x9F; }
    else if (b0 >= 0xF0 && b0 <= 0xF4) { need = 4; if (b0 == 0xF0) lo = 0x90; if (b0 == 0xF4) hi = 0x8F; }
    else return BAD;                                   // 80..BF, C0, C1, F5..FF are never a first byte
    for (unsigned i = 1; i < need; i++) {
        if (i >= n) return TRUNC;
        uint8_t b = p[i];
        if (i == 1) { if (b < lo || b > hi) return BAD; }
        else if (b < 0x80 || b > 0xBF) return BAD;
    }
    len = need;
    if (need == 2) cp = ((b0 & 0x1F) << 6) | (p[1] & 0x3F);
    else if (need == 3) cp = ((b0 & 0x0F) << 12) | ((p[1] & 0x3F) << 6) | (p[2] & 0x3F);
    else cp = ((b0 & 0x07) << 18) | ((p[1] & 0x3F) << 12) | ((p[2] & 0x3F) << 6) | (p[3] & 0x3F);
    return WELL;
}
static void u8encode(uint32_t cp, Bytes& o) {
    if (cp < 0x80) o.push_back((uint8_t)cp);
    else if (cp < 0x800) { o.push_back(0xC0 | (cp >> 6)); o.push_back(0x80 | (cp & 0x3F)); }
    else if (cp < 0x10000) { o.push_back(0xE0 | (cp >> 12)); o.push_back(0x80 | ((cp >> 6) & 0x3F)); o.push_back(0x80 | (cp & 0x3F)); }
    else { o.push_back(0xF0 | (cp >> 18)); o.push_back(0x80 | ((cp >> 12) & 0x3F)); o.push_back(0x80 | ((cp >> 6) & 0x3F)); o.push_back(0x80 | (cp & 0x3F)); }
}
struct U8Ref { Units units; std::vector<size_t> unitEnd; /* byte offset after the char each unit belongs to */ size_t good; SeqKind tail; };
// decode greedily; good = length of the well-formed prefix; tail = WELL when everything is well formed
static void u8decodeAll(const uint8_t* p, size_t n, U8Ref& r) {
    r.units.clear(); r.unitEnd.clear(); size_t pos = 0; r.tail = WELL;
    while (pos < n) {
        size_t len; uint32_t cp; SeqKind k = u8classify(p + pos, n - pos, len, cp);
        if (k != WELL) { r.tail = k; break; }
        size_t before = r.units.size(); unitsOf(cp, r.units); pos += len;
        for (size_t i = before; i < r.units.size(); i++) r.unitEnd.push_back(pos);
    }
    r.good = pos;
}

// ------------------------------------------------------------------------------------------------
// transcoder descriptions
// ------------------------------------------------------------------------------------------------
enum Kind { K_UTF8, K_UTF16, K_UCS4, K_XMLCH, K_SB /*single byte*/, K_MB /*ICU multi byte*/ };
struct TcDesc { const char* name; Kind kind; bool bigEndian; bool icuProvided; bool table; const char* icuRef; bool ebcdic; };
static const TcDesc TCS[] = {
    {"UTF-8",        K_UTF8,  false, false, false, 0, false},
    {"UTF-16LE",     K_UTF16, false, false, false, 0, false},
    {"UTF-16BE",     K_UTF16, true,  false, false, 0, false},
    {"UCS-4LE",      K_UCS4,  false, false, false, 0, false},
    {"UCS-4BE",      K_UCS4,  true,  false, false, 0, false},
    {"XERCES-XMLCH", K_XMLCH, false, false, false, 0, false},
    {"ISO-8859-1",   K_SB,    false, false, false, "ISO-8859-1", false},
    {"US-ASCII",     K_SB,    false, false, false, "US-ASCII", false},
    {"WINDOWS-1252", K_SB,    false, false, true,  "windows-1252", false},
    {"IBM037",       K_SB,    false, false, true,  "ibm-37", true},
    {"IBM1047",      K_SB,    false, false, true,  "ibm-1047", true},
    {"IBM1140",      K_SB,    false, false, true,  "ibm-1140", true},
    {"ISO-8859-2",   K_SB,    false, true,  false, "ISO-8859-2", false},
    {"ISO-8859-5",   K_SB,    false, true,  false, "ISO-8859-5", false},
    {"ISO-8859-15",  K_SB,    false, true,  false, "ISO-8859-15", false},
    {"KOI8-R",       K_SB,    false, true,  false, "KOI8-R", false},
    {"windows-1251", K_SB,    false, true,  false, "windows-1251", false},
    {"Shift_JIS",    K_MB,    false, true,  false, "Shift_JIS", false},
    {"EUC-JP",       K_MB,    false, true,  false, "EUC-JP", false},
    {"gb18030",      K_MB,    false, true,  false, "gb18030", false},
};
static const size_t NTCS = sizeof(TCS) / sizeof(TCS[0]);
static const TcDesc* findTc(const std::string& n) { for (size_t i = 0; i < NTCS; i++) if (n == TCS[i].name) return &TCS[i]; return 0; }

// known findings on the unchanged tree (excluded by construction when listed in skip=)
static const char* F_UCS4_RANGE   = "C05-ucs4-decode-no-range-check";
static const char* F_UCS4_SWAP    = "C05-ucs4-swapped-encode-supplementary";
static const char* F_UTF8_SURR    = "C05-utf8-encode-unpaired-surrogate";
static const char* F_UCS4_LOWSURR = "C05-ucs4-encode-lone-low-surrogate";
static const char* F_TABLE_NUL    = "C05-table-nul-unrepresentable";
static const char* F_TABLE_CAN    = "C05-table-can-truncates-codepoint";
static const char* F_TABLE_BESTFIT = "C05-table-bestfit-without-icu-counterpart";
static const char* F_ICU_CAN      = "C05-icu-can-supplementary";
static const char* F_ICU_OVERREAD = "C05-icu-encode-throw-overread";
static const char* F_ICU_SUBST    = "C05-icu-decode-substitutes-illegal";
static const char* F_ICU_SMALLBUF = "C05-icu-encode-small-buffer-throw";

// ------------------------------------------------------------------------------------------------
// summary
// ------------------------------------------------------------------------------------------------
struct Sub { long eval = 0, nontriv = 0; bool exhaustive = false; };
struct Sum {
    std::map<std::string, Sub> subs; std::map<std::string, long> labels, excl; long dis = 0, nfail = 0;
    std::vector<std::string> fails, samples, disSamples;
    std::set<std::string> skip;
    bool skipping(const char* id) const { return skip.count(id) != 0; }
    void fail(const std::string& item, const std::string& why) { nfail++; if (fails.size() < 6) fails.push_back(item + "\twhy=" + why); }
    void sample(const std::string& s) { if (samples.size() < 3) samples.push_back(s); }
    std::string str() const {
        std::string o; char b[128];
        for (std::map<std::string, Sub>::const_iterator i = subs.begin(); i != subs.end(); ++i) { snprintf(b, sizeof b, "\t%ld\t%ld\t%d\n", i->second.eval, i->second.nontriv, (int)i->second.exhaustive); o += "SUB\t" + i->first + b; }
        for (std::map<std::string, long>::const_iterator i = labels.begin(); i != labels.end(); ++i) { snprintf(b, sizeof b, "\t%ld\n", i->second); o += "LBL\t" + i->first + b; }
        for (std::map<std::string, long>::const_iterator i = excl.begin(); i != excl.end(); ++i) { snprintf(b, sizeof b, "\t%ld\n", i->second); o += "EXCL\t" + i->first + b; }
        snprintf(b, sizeof b, "DIS\t%ld\nNFAIL\t%ld\n", dis, nfail); o += b;
        for (size_t i = 0; i < disSamples.size(); i++) o += "DISSAMPLE\t" + disSamples[i] + "\n";
        for (size_t i = 0; i < samples.size(); i++) o += "SAMPLE\t" + samples[i] + "\n";
        for (size_t i = 0; i < fails.size(); i++) o += "FAIL\t" + fails[i] + "\n";
        return o;
    }
};

// ------------------------------------------------------------------------------------------------
// the transcoder under test + guarded calls
// ------------------------------------------------------------------------------------------------
static const size_t CAP = 4096;            // block size given to makeNewTranscoderFor (ICU transcoders: maxChars must not exceed it)
static const size_t BIGCAP = 20480;        // capacity of the guarded output buffers (lane deep uses blocks > 16384)
enum Exc { E_NONE = 0, E_UTFDATA, E_TRANSCODING, E_OTHERXML, E_FOREIGN };
static const char* excName(int e) { static const char* n[] = {"none", "UTFDataFormatException", "TranscodingException", "XMLException(other)", "FOREIGN"}; return n[e]; }
struct Tc {
    const TcDesc* d; XMLTranscoder* t = 0; size_t block;
    Tc(const TcDesc* dd, size_t blk = CAP) : d(dd), block(blk) { make(); }
    ~Tc() { delete t; }
    void make() {
        delete t; t = 0; XMLTransService::Codes rc;
        t = XMLPlatformUtils::fgTransService->makeNewTranscoderFor(d->name, rc, block);
    }
    void afterExc() { if (d->icuProvided) make(); }        // an ICU converter keeps error state: start from a fresh one
};
struct FromRes { int exc = 0; Units out; size_t eaten = 0; Bytes sizes; std::string bad; };
struct ToRes { int exc = 0; Bytes out; size_t eaten = 0; std::string bad; };
static XMLCh g_obuf[BIGCAP + 16]; static unsigned char g_sbuf[BIGCAP + 16]; static XMLByte g_bbuf[BIGCAP * 4 + 16];

// source is copied to an exact-size heap block (ASan sees over-reads); outputs are canary guarded
static void callFrom(Tc& tc, const uint8_t* src, size_t n, size_t maxChars, FromRes& r, bool heapSrc = true) {
    r = FromRes();
    std::unique_ptr<uint8_t[]> hs; const uint8_t* s = src;
    if (heapSrc) { hs.reset(new uint8_t[n ? n : 1]); if (n) memcpy(hs.get(), src, n); s = hs.get(); }
    for (int i = 0; i < 8; i++) { g_obuf[maxChars + i] = 0xA5A5; g_sbuf[maxChars + i] = 0xA5; }
    XMLSize_t eaten = 0, got = 0;
    try { got = tc.t->transcodeFrom(s, n, g_obuf, maxChars, eaten, g_sbuf); }
    catch (const UTFDataFormatException&) { r.exc = E_UTFDATA; }
    catch (const TranscodingException&) { r.exc = E_TRANSCODING; }
    catch (const XMLException&) { r.exc = E_OTHERXML; }
    catch (...) { r.exc = E_FOREIGN; }
    for (int i = 0; i < 8; i++) if (g_obuf[maxChars + i] != 0xA5A5 || g_sbuf[maxChars + i] != 0xA5) r.bad = "wrote beyond maxChars";
    if (r.exc) { tc.afterExc(); return; }
    if (got > maxChars) { r.bad = "returned more chars than maxChars"; got = maxChars; }
    if (eaten > n) { r.bad = "bytesEaten > srcCount"; }
    r.eaten = eaten; r.out.assign(g_obuf, g_obuf + got); r.sizes.assign(g_sbuf, g_sbuf + got);
}
static void callTo(Tc& tc, const XMLCh* src, size_t n, size_t maxBytes, XMLTranscoder::UnRepOpts opt, ToRes& r, size_t padUnits = 0) {
    r = ToRes();
    std::unique_ptr<XMLCh[]> hs(new XMLCh[n + padUnits + 1]);
    if (n) memcpy(hs.get(), src, n * sizeof(XMLCh));
    for (size_t i = 0; i < padUnits; i++) hs[n + i] = 0x5A;
    for (int i = 0; i < 8; i++) g_bbuf[maxBytes + i] = 0xA5;
    XMLSize_t eaten = 0, got = 0;
    // the source block is exactly n (+padUnits) units long: new XMLCh[n + padUnits + 1] would hide a one-unit over-read,
    // so hand out a pointer that ends at the end of the allocation
    XMLCh* s = hs.get() + 1; memmove(s, hs.get(), (n + padUnits) * sizeof(XMLCh));
    try { got = tc.t->transcodeTo(s, n, g_bbuf, maxBytes, eaten, opt); }
    catch (const UTFDataFormatException&) { r.exc = E_UTFDATA; }
    catch (const TranscodingException&) { r.exc = E_TRANSCODING; }
    catch (const XMLException&) { r.exc = E_OTHERXML; }
    catch (...) { r.exc = E_FOREIGN; }
    for (int i = 0; i < 8; i++) if (g_bbuf[maxBytes + i] != 0xA5) r.bad = "wrote beyond maxBytes";
    if (r.exc) { tc.afterExc(); return; }
    if (got > maxBytes) { r.bad = "returned more bytes than maxBytes"; got = maxBytes; }
    if (eaten > n) r.bad = "charsEaten > srcCount";
    r.eaten = eaten; r.out.assign(g_bbuf, g_bbuf + got);
}

// ------------------------------------------------------------------------------------------------
// references for the non-UTF encodings: ICU's own converter, opened directly
// ------------------------------------------------------------------------------------------------
struct IcuRef {
    UConverter* c = 0; UConverter* cfb = 0; std::string name;
    uint16_t to[256]; bool def[256]; std::map<uint32_t, int> inv; std::set<uint32_t> ambig;   // single byte only
    std::set<int> xbytes; std::set<uint32_t> xcps;                                               // excluded by a third witness
    uint16_t alt[256]; std::set<int> ambB; std::set<uint32_t> ambC;                               // EBCDIC NL/LF variants (",swaplfnl")
    IcuRef(const char* n, bool single, bool ebcdic = false) : name(n) {
        UErrorCode e = U_ZERO_ERROR; c = ucnv_open(n, &e);
        if (!c || U_FAILURE(e)) { c = 0; return; }
        ucnv_setToUCallBack(c, UCNV_TO_U_CALLBACK_STOP, 0, 0, 0, &e);
        ucnv_setFromUCallBack(c, UCNV_FROM_U_CALLBACK_STOP, 0, 0, 0, &e);
        cfb = ucnv_open(n, &e);
        if (cfb) { ucnv_setFromUCallBack(cfb, UCNV_FROM_U_CALLBACK_STOP, 0, 0, 0, &e); ucnv_setFallback(cfb, true); }
        if (single) for (int b = 0; b < 256; b++) {
            char ch = (char)b; UChar out[4]; e = U_ZERO_ERROR;
            int32_t l = ucnv_toUChars(c, out, 4, &ch, 1, &e);
            def[b] = U_SUCCESS(e) && l == 1; to[b] = def[b] ? out[0] : 0xFFFF;
            if (def[b]) { if (inv.count(out[0])) ambig.insert(out[0]); else inv[out[0]] = b; }
        }
        if (single && ebcdic) {
            UConverter* a = ucnv_open((name + ",swaplfnl").c_str(), &e);
            if (a && U_SUCCESS(e)) for (int b = 0; b < 256; b++) { char ch = (char)b; UChar out[4]; e = U_ZERO_ERROR; int32_t l = ucnv_toUChars(a, out, 4, &ch, 1, &e); alt[b] = (U_SUCCESS(e) && l == 1) ? out[0] : 0xFFFF; if (alt[b] != to[b]) { ambB.insert(b); ambC.insert(alt[b]); ambC.insert(to[b]); } }
            if (a) ucnv_close(a);
        }
    }
    ~IcuRef() { if (c) ucnv_close(c); if (cfb) ucnv_close(cfb); }
    // encode one scalar with ICU itself (converter defaults = what Xerces' ICUTranscoder gets; stop on unassigned).
    // -> 1 bytes in o, 0 unassigned, -1 ICU reports success without output (default-ignorable code point: skipped by ICU)
    int icuEncode(uint32_t cp, Bytes& o, bool withFallback = false) {
        UConverter* c = withFallback ? this->cfb : this->c;
        UChar u[2]; int n = 0; if (cp >= 0x10000) { u[0] = (UChar)(0xD800 + ((cp - 0x10000) >> 10)); u[1] = (UChar)(0xDC00 + ((cp - 0x10000) & 0x3FF)); n = 2; } else { u[0] = (UChar)cp; n = 1; }
        char buf[32]; UErrorCode e = U_ZERO_ERROR; int32_t l = ucnv_fromUChars(c, buf, 32, u, n, &e);
        if (U_FAILURE(e)) return 0;
        o.assign((uint8_t*)buf, (uint8_t*)buf + l); return l > 0 ? 1 : -1;
    }
    bool icuDecode(const Bytes& b, Units& o) {
        UChar buf[64]; UErrorCode e = U_ZERO_ERROR; int32_t l = ucnv_toUChars(c, buf, 64, (const char*)(b.empty() ? 0 : &b[0]), (int32_t)b.size(), &e);
        if (U_FAILURE(e)) return false; o.assign((XMLCh*)buf, (XMLCh*)buf + l); return true;
    }
};
static std::map<std::string, IcuRef*> g_refs;
static std::map<std::string, std::string> g_xbytes;     // per transcoder: "81,8D,..." bytes excluded by the python witness
static IcuRef* refFor(const TcDesc* d) {
    if (!d->icuRef) return 0;
    std::map<std::string, IcuRef*>::iterator it = g_refs.find(d->name);
    if (it != g_refs.end()) return it->second;
    IcuRef* r = new IcuRef(d->icuRef, d->kind == K_SB, d->ebcdic);
    std::vector<uint32_t> xb = unhexList(g_xbytes[d->name]);
    for (size_t i = 0; i < xb.size(); i++) { r->xbytes.insert((int)xb[i]); if (r->def[xb[i] & 255]) r->xcps.insert(r->to[xb[i] & 255]); }
    std::vector<uint32_t> xc = unhexList(g_xbytes[std::string(d->name) + "/cps"]);
    for (size_t i = 0; i < xc.size(); i++) r->xcps.insert(xc[i]);
    g_refs[d->name] = r; return r;
}

// reference encoding of one scalar value: 1 representable (bytes in o), 0 unrepresentable, -1 ambiguous/excluded (dropped),
// 2 only a best-fit fallback mapping exists (o = ICU's fallback byte): may be reported unrepresentable or must give that byte
static int refEncode(const TcDesc* d, uint32_t cp, Bytes& o, Sum* sum = 0) {
    o.clear();
    switch (d->kind) {
    case K_UTF8: u8encode(cp, o); return 1;
    case K_UTF16: case K_XMLCH: { Units u; unitsOf(cp, u); bool be = d->kind == K_UTF16 && d->bigEndian; for (size_t i = 0; i < u.size(); i++) { uint8_t lo = u[i] & 0xFF, hi = u[i] >> 8; if (be) { o.push_back(hi); o.push_back(lo); } else { o.push_back(lo); o.push_back(hi); } } return 1; }
    case K_UCS4: for (int i = 0; i < 4; i++) o.push_back((uint8_t)(cp >> (d->bigEndian ? 24 - 8 * i : 8 * i))); return 1;
    case K_SB: {
        IcuRef* r = refFor(d); if (!r || !r->c) return -1;
        if (r->ambig.count(cp) || r->xcps.count(cp)) return -1;
        if (r->ambC.count(cp)) { if (sum) sum->labels["dropped:EBCDIC NL/LF variant (ICU has both mappings)"]++; return -1; }
        std::map<uint32_t, int>::iterator it = r->inv.find(cp);
        Bytes w2; int can2 = r->icuEncode(cp, w2);                // second witness: ICU's from-Unicode direction
        if (it == r->inv.end()) {
            if (can2 == -1) { if (sum) sum->labels["dropped:default-ignorable (ICU skips it silently)"]++; return -1; }
            if (can2 == 1) { if (sum) sum->dis++; return -1; }
            // best-fit ("fallback") mappings of the vendor tables: neither clearly representable nor clearly not
            if (!d->icuProvided && r->cfb && r->icuEncode(cp, o, true) == 1 && o.size() == 1) return 2;
            o.clear(); return 0;
        }
        if (r->xbytes.count(it->second)) return -1;
        if (can2 != 1 || w2.size() != 1 || w2[0] != it->second) { if (sum) sum->dis++; return -1; }
        o.push_back((uint8_t)it->second); return 1; }
    case K_MB: { IcuRef* r = refFor(d); if (!r || !r->c) return -1; int k = r->icuEncode(cp, o); if (k == -1 && sum) sum->labels["dropped:default-ignorable (ICU skips it silently)"]++; return k; }
    }
    return -1;
}

// ------------------------------------------------------------------------------------------------
// decode loop: call transcodeFrom repeatedly the way a reader does (uneaten bytes stay at the front)
// ------------------------------------------------------------------------------------------------
struct Loop { Units out; size_t consumed = 0; int exc = 0; bool stuck = false; std::string bad; int calls = 0; };
static void decodeLoop(Tc& tc, const uint8_t* p, size_t n, size_t maxChars, Loop& L, bool checkSizes) {
    L = Loop();
    while (L.consumed < n) {
        FromRes r; callFrom(tc, p + L.consumed, n - L.consumed, maxChars, r); L.calls++;
        if (!r.bad.empty()) { L.bad = r.bad; return; }
        if (r.exc) { L.exc = r.exc; return; }
        if (checkSizes) { size_t s = 0; for (size_t i = 0; i < r.sizes.size(); i++) s += r.sizes[i]; if (s != r.eaten) { L.bad = "sum(charSizes)=" + std::to_string(s) + " != bytesEaten=" + std::to_string(r.eaten); return; } }
        if (r.eaten == 0) { if (!r.out.empty()) L.bad = "chars produced but no bytes eaten"; L.stuck = true; return; }
        L.out.insert(L.out.end(), r.out.begin(), r.out.end()); L.consumed += r.eaten;
        if (L.calls > 100000) { L.bad = "no termination"; return; }
    }
}

// ================================================================================================
// lane: scalar -- every scalar value through canTranscodeTo / transcodeTo (throw + rep-char) / transcodeFrom
// ================================================================================================
static std::string checkScalar(Tc& tc, uint32_t cp, Sum& sum) {
    const TcDesc* d = tc.d; Bytes E; int rep = refEncode(d, cp, E, &sum);
    if (rep < 0) { sum.labels["dropped:ambiguous-or-third-witness"]++; return ""; }
    Units u; unitsOf(cp, u);
    if (rep == 2) {
        sum.labels["lenient:best-fit fallback mapping"]++;
        bool can = tc.t->canTranscodeTo(cp); ToRes t; callTo(tc, &u[0], u.size(), 8, XMLTranscoder::UnRep_Throw, t, 1);
        if (!t.bad.empty()) return t.bad;
        if (cp < 0x10000 && can != !t.exc) return std::string("canTranscodeTo=") + (can ? "true" : "false") + " but transcodeTo " + (t.exc ? "throws" : "gives " + hexB(t.out));
        if (!t.exc && t.out != E) return "best-fit mapping gives " + hexB(t.out) + " but ICU's fallback mapping is " + hexB(E);
        return "";
    }
    bool isIcu = d->icuProvided, isTable = d->table;
    if (isTable && cp == 0 && sum.skipping(F_TABLE_NUL)) { sum.excl[F_TABLE_NUL]++; return ""; }
    if (isTable && cp == 0x110 && rep == 0 && !strcmp(d->name, "IBM1047") && sum.skipping(F_TABLE_BESTFIT)) { sum.excl[F_TABLE_BESTFIT]++; return ""; }   // IBM1047: U+0110 -> 0xAC
    // (a) canTranscodeTo
    bool skipCan = false;
    if (isTable && cp >= 0x10000 && sum.skipping(F_TABLE_CAN)) { skipCan = true; sum.excl[F_TABLE_CAN]++; }
    if (isIcu && cp >= 0x10000 && sum.skipping(F_ICU_CAN)) { skipCan = true; sum.excl[F_ICU_CAN]++; }
    if (!skipCan) { bool can = tc.t->canTranscodeTo(cp); if (can != (rep == 1)) return std::string("canTranscodeTo=") + (can ? "true" : "false") + " but reference says " + (rep == 1 ? "representable as " + hexB(E) : "unrepresentable"); }
    // (b) transcodeTo, UnRep_Throw
    bool skipEnc = d->kind == K_UCS4 && cp >= 0x10000 && d->bigEndian != (bool)XMLPlatformUtils::fgXMLChBigEndian && sum.skipping(F_UCS4_SWAP);
    if (skipEnc) sum.excl[F_UCS4_SWAP]++;
    ToRes t;
    if (!skipEnc) {
        size_t pad = 0;
        if (isIcu && rep == 0 && sum.skipping(F_ICU_OVERREAD)) { pad = 1; sum.excl[F_ICU_OVERREAD]++; }
        callTo(tc, &u[0], u.size(), rep == 1 ? E.size() : 8, XMLTranscoder::UnRep_Throw, t, pad);
        if (!t.bad.empty()) return "transcodeTo: " + t.bad;
        if (rep == 1) {
            if (t.exc) return std::string("transcodeTo threw ") + excName(t.exc) + " for a representable character, expected " + hexB(E);
            if (t.out != E || t.eaten != u.size()) return "transcodeTo gave " + hexB(t.out) + " eaten=" + std::to_string(t.eaten) + ", expected " + hexB(E) + " eaten=" + std::to_string(u.size());
        } else {
            if (!t.exc) return "transcodeTo(UnRep_Throw) did not throw for an unrepresentable character, gave " + hexB(t.out);
            if (t.exc != E_TRANSCODING) return std::string("transcodeTo(UnRep_Throw) threw ") + excName(t.exc) + ", expected TranscodingException";
            // (c) replacement character mode: must substitute, never throw
            callTo(tc, &u[0], u.size(), 8, XMLTranscoder::UnRep_RepChar, t, 1);
            if (!t.bad.empty()) return "transcodeTo(RepChar): " + t.bad;
            if (t.exc) return std::string("transcodeTo(UnRep_RepChar) threw ") + excName(t.exc);
            if (t.eaten != u.size() || t.out.empty()) return "transcodeTo(UnRep_RepChar) eaten=" + std::to_string(t.eaten) + " bytes=" + hexB(t.out);
        }
    }
    // (d) transcodeFrom of the legal sequence, alone and between two neighbours
    if (rep == 1) {
        Units expect = u;
        if (d->kind == K_MB) { if (!refFor(d)->icuDecode(E, expect)) { sum.dis++; return ""; } }
        FromRes f; callFrom(tc, &E[0], E.size(), 4, f);
        if (!f.bad.empty()) return "transcodeFrom: " + f.bad;
        if (f.exc) return std::string("transcodeFrom threw ") + excName(f.exc) + " for the legal sequence " + hexB(E);
        if (f.out != expect || f.eaten != E.size()) return "transcodeFrom(" + hexB(E) + ") gave [" + hexU(f.out) + "] eaten=" + std::to_string(f.eaten) + ", expected [" + hexU(expect) + "]";
        if (d->kind == K_UTF16 || d->kind == K_XMLCH) { for (size_t i = 0; i < f.sizes.size(); i++) if (f.sizes[i] != 2) return "charSizes wrong for " + hexB(E); }
        else if (!(d->kind == K_MB)) { if (f.sizes[0] != E.size() || (f.sizes.size() > 1 && f.sizes[1] != 0)) return "charSizes wrong for " + hexB(E); }
        Bytes A, B, emb; if (refEncode(d, 0x41, A) == 1 && refEncode(d, 0x3C, B) == 1) {
            emb = A; emb.insert(emb.end(), E.begin(), E.end()); emb.insert(emb.end(), B.begin(), B.end());
            Units ex2; ex2.push_back(0x41); ex2.insert(ex2.end(), expect.begin(), expect.end()); ex2.push_back(0x3C);
            callFrom(tc, &emb[0], emb.size(), 8, f);
            if (!f.bad.empty()) return "transcodeFrom(embedded): " + f.bad;
            if (f.exc || f.out != ex2 || f.eaten != emb.size()) return "transcodeFrom(embedded " + hexB(emb) + ") gave [" + hexU(f.out) + "] exc=" + excName(f.exc) + ", expected [" + hexU(ex2) + "]";
        }
    }
    return "";
}
static void laneScalar(const Req& q, Sum& sum) {
    const TcDesc* d = findTc(get(q, "tc")); if (!d) { sum.fail("lane=scalar\ttc=" + get(q, "tc"), "unknown transcoder"); return; }
    Tc tc(d); if (!tc.t) { sum.fail("lane=scalar\ttc=" + std::string(d->name), "makeNewTranscoderFor returned null"); return; }
    long w = geti(q, "worker", 0), nw = geti(q, "nworkers", 1); bool thorough = get(q, "tier", "quick") == "thorough"; unsigned phase = (unsigned)geti(q, "seed", 1) % 4;
    // thorough: every scalar value.  quick: every scalar value below U+3000 and in U+D700..U+FFFF and the 64 values around each plane
    // boundary, plus a 1/4 stride of the rest whose phase is taken from VERIF_SEED (four seeds cover everything)
    Sub& s = sum.subs[std::string("scalar:") + d->name + (thorough ? "" : "(all of U+0000..2FFF, U+D700..FFFF, plane edges; 1/4 stride elsewhere)")]; s.exhaustive = thorough;
    for (uint32_t cp = 0; cp <= 0x10FFFF; cp++) {
        if (isSurr(cp)) continue;
        if ((long)(cp % nw) != w) continue;
        if (!thorough && cp >= 0x3000 && !(cp >= 0xD700 && cp <= 0xFFFF) && (cp & 0xFFFF) >= 0x40 && (cp & 0xFFFF) < 0xFFC0 && (cp / (uint32_t)nw) % 4 != phase) continue;
        std::string why = checkScalar(tc, cp, sum);
        s.eval++; if (cp >= 0x80 || d->ebcdic) s.nontriv++;
        if (!why.empty()) sum.fail("lane=scalar\ttc=" + std::string(d->name) + "\tcp=" + hx(cp), why);
    }
    sum.labels[std::string("tc:") + d->name] += s.eval;
    sum.sample(std::string("scalar ") + d->name + ": every scalar value cp with cp % " + std::to_string(nw) + " == " + std::to_string(w));
}

// ================================================================================================
// lane: utf8 -- byte strings against the Table 3-7 reference: alone, embedded, TranscodeFromStr
// ================================================================================================
static std::string checkUtf8(Tc& tc, const uint8_t* p, size_t n, Sum& sum, bool& wellFormed) {
    U8Ref ref; u8decodeAll(p, n, ref); wellFormed = ref.tail == WELL;
    // --- alone
    Loop L; decodeLoop(tc, p, n, 16, L, true);
    if (!L.bad.empty()) return "alone: " + L.bad;
    size_t nu = 0; while (nu < ref.unitEnd.size() && ref.unitEnd[nu] <= L.consumed) nu++;
    if (L.out.size() != nu || !std::equal(L.out.begin(), L.out.end(), ref.units.begin()) || (L.consumed != ref.good && (nu == 0 ? L.consumed != 0 : ref.unitEnd[nu - 1] != L.consumed)))
        return "alone: decoded [" + hexU(L.out) + "] from " + std::to_string(L.consumed) + " bytes; reference decodes [" + hexU(ref.units) + "] from the well-formed prefix of " + std::to_string(ref.good) + " bytes";
    if (L.consumed > ref.good) return "alone: consumed beyond the well-formed prefix";
    if (ref.tail == WELL) { if (L.exc || L.stuck || L.consumed != n) return std::string("alone: well-formed string not fully decoded (exc=") + excName(L.exc) + " consumed=" + std::to_string(L.consumed) + ")"; }
    else if (ref.tail == TRUNC) { if (L.exc) return std::string("alone: truncated trailing sequence raised ") + excName(L.exc) + " instead of being left uneaten"; if (L.consumed != ref.good) return "alone: truncated tail: consumed " + std::to_string(L.consumed) + " expected " + std::to_string(ref.good); }
    else { if (!L.exc && !(L.stuck && L.consumed == ref.good)) return "alone: ill-formed sequence neither rejected nor left uneaten"; if (L.exc && L.exc != E_UTFDATA && L.exc != E_TRANSCODING) return std::string("alone: rejected with ") + excName(L.exc); }
    // --- TranscodeFromStr on the same transcoder
    {
        int exc = 0; Units got;
        try { TranscodeFromStr x(p, n, tc.t); got.assign(x.str(), x.str() + x.length()); }
        catch (const XMLException&) { exc = 1; } catch (...) { exc = 2; }
        if (exc == 2) return "TranscodeFromStr: foreign exception";
        if (ref.tail == WELL) { if (exc || got != ref.units) return "TranscodeFromStr gave [" + hexU(got) + "] exc=" + std::to_string(exc) + ", expected [" + hexU(ref.units) + "]"; }
        else if (!exc) return "TranscodeFromStr accepted an ill-formed string as [" + hexU(got) + "]";
    }
    // --- embedded between ASCII (6 trailing bytes: no sequence can be 'incomplete' any more)
    uint8_t emb[16]; size_t m = 0; emb[m++] = 'A'; memcpy(emb + m, p, n); m += n; memcpy(emb + m, "<bcdef", 6); m += 6;
    U8Ref r2; u8decodeAll(emb, m, r2);
    decodeLoop(tc, emb, m, 16, L, true);
    if (!L.bad.empty()) return "embedded: " + L.bad;
    if (r2.tail == WELL) { if (L.exc || L.stuck || L.out != r2.units) return std::string("embedded: expected [") + hexU(r2.units) + "] got [" + hexU(L.out) + "] exc=" + excName(L.exc); }
    else {
        if (!L.exc) return "embedded: ill-formed sequence not rejected; decoded [" + hexU(L.out) + "]" + (L.stuck ? " then no progress" : "");
        if (L.exc != E_UTFDATA && L.exc != E_TRANSCODING) return std::string("embedded: rejected with ") + excName(L.exc);
    }
    return "";
}
static void laneUtf8(const Req& q, Sum& sum) {
    const TcDesc* d = findTc("UTF-8"); Tc tc(d);
    long w = geti(q, "worker", 0), nw = geti(q, "nworkers", 1); bool thorough = get(q, "tier", "quick") == "thorough"; unsigned seed = (unsigned)geti(q, "seed", 1);
    std::string part = get(q, "part", "123");
    uint8_t s[4]; bool wf; unsigned long idx = 0;
    // boundary values for the sampled positions + seed dependent extras
    std::vector<int> B; { static const int b[] = {0x00, 0x41, 0x7F, 0x80, 0x8F, 0x90, 0x9F, 0xA0, 0xBF, 0xC0, 0xC2, 0xE0, 0xED, 0xF4, 0xFF}; B.assign(b, b + 15); B.push_back((int)((seed * 2654435761u) >> 24) & 0xFF); }
    std::vector<int> B8; { static const int b[] = {0x00, 0x41, 0x7F, 0x80, 0xBF, 0xC0, 0xFF}; B8.assign(b, b + 7); B8.push_back(B.back()); }   // trail-byte boundaries + one seed dependent value
    if (part.find('1') != std::string::npos) {
        Sub& s1 = sum.subs["utf8:len1"]; s1.exhaustive = true;
        Sub& s2 = sum.subs["utf8:len2"]; s2.exhaustive = true;
        for (int a = 0; a < 256; a++) { if ((idx++ % nw) == (unsigned long)w) { s[0] = a; std::string why = checkUtf8(tc, s, 1, sum, wf); s1.eval++; if (a >= 0x80) s1.nontriv++; sum.labels[wf ? "utf8:well-formed" : "utf8:ill-formed"]++; if (!why.empty()) sum.fail("lane=utf8\ttc=UTF-8\tsrc=" + hexB(s, 1), why); } }
        for (int a = 0; a < 256; a++) for (int b = 0; b < 256; b++) { if ((idx++ % nw) != (unsigned long)w) continue; s[0] = a; s[1] = b; std::string why = checkUtf8(tc, s, 2, sum, wf); s2.eval++; if ((a | b) >= 0x80) s2.nontriv++; sum.labels[wf ? "utf8:well-formed" : "utf8:ill-formed"]++; if (!why.empty()) sum.fail("lane=utf8\ttc=UTF-8\tsrc=" + hexB(s, 2), why); }
    }
    if (part.find('3') != std::string::npos) {
        Sub& s3 = sum.subs[thorough ? "utf8:len3" : "utf8:len3(b0,b1 exhaustive; b2 in 8 boundary values)"]; s3.exhaustive = thorough;
        for (int a = 0; a < 256; a++) for (int b = 0; b < 256; b++) {
            if ((idx++ % nw) != (unsigned long)w) continue;
            size_t nc = thorough ? 256 : B8.size();
            for (size_t k = 0; k < nc; k++) { int c = thorough ? (int)k : B8[k]; s[0] = a; s[1] = b; s[2] = c; std::string why = checkUtf8(tc, s, 3, sum, wf); s3.eval++; if ((a | b | c) >= 0x80) s3.nontriv++; sum.labels[wf ? "utf8:well-formed" : "utf8:ill-formed"]++; if (!why.empty()) sum.fail("lane=utf8\ttc=UTF-8\tsrc=" + hexB(s, 3), why); }
        }
    }
    if (part.find('4') != std::string::npos) {
        // 4-byte space: lead F0..FF x second byte exhaustive x (third, fourth) from boundary values (quick) /
        // lead F0..F4 x second x third exhaustive x fourth from boundary values + F5..FF structured (thorough)
        Sub& s4 = sum.subs[thorough ? "utf8:len4(lead,b1,b2 exhaustive for F0..F4; b3 boundary)" : "utf8:len4(lead F0..FF,b1 exhaustive; b2,b3 in 8 boundary values)"]; s4.exhaustive = false;
        const std::vector<int>& T = thorough ? B : B8;      // values for the sampled trail positions
        for (int a = thorough ? 0xE0 : 0xF0; a < 256; a++) for (int b = 0; b < 256; b++) {
            if ((idx++ % nw) != (unsigned long)w) continue;
            bool full = thorough && a >= 0xF0 && a <= 0xF4;
            size_t nc = full ? 256 : T.size();
            for (size_t k = 0; k < nc; k++) for (size_t l = 0; l < T.size(); l++) {
                s[0] = a; s[1] = b; s[2] = full ? (int)k : T[k]; s[3] = T[l];
                std::string why = checkUtf8(tc, s, 4, sum, wf); s4.eval++; s4.nontriv++; sum.labels[wf ? "utf8:well-formed" : "utf8:ill-formed"]++;
                if (!why.empty()) sum.fail("lane=utf8\ttc=UTF-8\tsrc=" + hexB(s, 4), why);
            }
        }
    }
    sum.labels["tc:UTF-8"] += 0;
    sum.sample("utf8: byte strings (parts " + part + ") alone / TranscodeFromStr / embedded as 'A' s '<bcdef'");
}

// ================================================================================================
// lane: utf16 -- 16-bit units pass through unchanged in both directions (pairing is the scanner's job), odd byte uneaten
// ================================================================================================
static std::string checkUtf16(Tc& tc, const Units& u, Sum& sum) {
    const TcDesc* d = tc.d; Bytes E; bool be = d->kind == K_UTF16 && d->bigEndian;
    for (size_t i = 0; i < u.size(); i++) { uint8_t lo = u[i] & 0xFF, hi = u[i] >> 8; if (be) { E.push_back(hi); E.push_back(lo); } else { E.push_back(lo); E.push_back(hi); } }
    for (size_t mc = 1; mc <= 3; mc++) {
        Loop L; decodeLoop(tc, &E[0], E.size(), mc, L, true);
        if (!L.bad.empty()) return "from: " + L.bad;
        if (L.exc || L.stuck || L.out != u) return "from(maxChars=" + std::to_string(mc) + "): got [" + hexU(L.out) + "] exc=" + excName(L.exc) + " expected [" + hexU(u) + "]";
    }
    // trailing odd byte must stay uneaten
    Bytes E1 = E; E1.push_back(0x41); FromRes f; callFrom(tc, &E1[0], E1.size(), 8, f);
    if (!f.bad.empty()) return "from(odd): " + f.bad;
    if (f.exc || f.out != u || f.eaten != E.size()) return "from(odd trailing byte): got [" + hexU(f.out) + "] eaten=" + std::to_string(f.eaten);
    for (size_t mb = 1; mb <= 5; mb++) {
        Bytes acc; size_t pos = 0; int guard = 0; bool stuck = false;
        while (pos < u.size() && guard++ < 50) { ToRes t; callTo(tc, &u[pos], u.size() - pos, mb, XMLTranscoder::UnRep_Throw, t); if (!t.bad.empty()) return "to: " + t.bad; if (t.exc) return std::string("to threw ") + excName(t.exc); if (!t.eaten) { stuck = true; break; } acc.insert(acc.end(), t.out.begin(), t.out.end()); pos += t.eaten; }
        if (mb == 1) { if (!stuck || !acc.empty()) return "to(maxBytes=1) must make no progress"; continue; }
        if (stuck || acc != E) return "to(maxBytes=" + std::to_string(mb) + "): got " + hexB(acc) + " expected " + hexB(E);
    }
    return "";
}
static void laneUtf16(const Req& q, Sum& sum) {
    const TcDesc* d = findTc(get(q, "tc")); if (!d || (d->kind != K_UTF16 && d->kind != K_XMLCH)) { sum.fail("lane=utf16\ttc=" + get(q, "tc"), "not a UTF-16 transcoder"); return; }
    Tc tc(d); long w = geti(q, "worker", 0), nw = geti(q, "nworkers", 1); bool thorough = get(q, "tier", "quick") == "thorough"; unsigned seed = (unsigned)geti(q, "seed", 1);
    static const unsigned V[] = {0x0000, 0x0041, 0x00FF, 0xD7FF, 0xD800, 0xDBFF, 0xDC00, 0xDFFF, 0xE000, 0xFFFE, 0xFFFF};
    Sub& s = sum.subs[std::string("utf16:") + d->name + (thorough ? "(every unit x 11 boundary units, both orders)" : "(every surrogate + 1/16 of the other units x 11 boundary units, both orders)")]; s.exhaustive = false;
    for (unsigned a = 0; a < 0x10000; a++) {
        if (!thorough && !isSurr(a) && (a >> 4) % 16 != seed % 16 && a != 0xD7FF && a != 0xE000 && a < 0xFFFE) continue;
        if ((long)(a % nw) != w) continue;
        for (size_t k = 0; k < 11; k++) for (int order = 0; order < 2; order++) {
            Units u; if (order) { u.push_back((XMLCh)V[k]); u.push_back((XMLCh)a); } else { u.push_back((XMLCh)a); u.push_back((XMLCh)V[k]); }
            std::string why = checkUtf16(tc, u, sum); s.eval++; s.nontriv++;
            bool hi0 = u[0] >= 0xD800 && u[0] <= 0xDBFF, lo1 = u[1] >= 0xDC00 && u[1] <= 0xDFFF;
            sum.labels[hi0 && lo1 ? "utf16:pair" : (isSurr(u[0]) || isSurr(u[1])) ? "utf16:unpaired-surrogate" : "utf16:bmp-bmp"]++;
            if (!why.empty()) sum.fail("lane=utf16\ttc=" + std::string(d->name) + "\tunits=" + hexU(u), why);
        }
    }
    sum.labels[std::string("tc:") + d->name] += s.eval;
}

// ================================================================================================
// lane: ucs4 -- 32-bit values outside the scalar range must be rejected; in-range covered by lane scalar
// ================================================================================================
static std::string checkUcs4Bad(Tc& tc, uint32_t v, Sum& sum) {
    Bytes E; for (int i = 0; i < 4; i++) E.push_back((uint8_t)(v >> (tc.d->bigEndian ? 24 - 8 * i : 8 * i)));
    Bytes emb; Bytes A; refEncode(tc.d, 0x41, A); emb = A; emb.insert(emb.end(), E.begin(), E.end()); emb.insert(emb.end(), A.begin(), A.end());
    Loop L; decodeLoop(tc, &emb[0], emb.size(), 8, L, true);
    if (!L.bad.empty()) return L.bad;
    if (!L.exc) return "value " + hx(v) + " (not a Unicode scalar value) was decoded to [" + hexU(L.out) + "] instead of being rejected";
    if (L.exc != E_TRANSCODING && L.exc != E_UTFDATA) return std::string("rejected with ") + excName(L.exc);
    return "";
}
static void laneUcs4(const Req& q, Sum& sum) {
    const TcDesc* d = findTc(get(q, "tc")); if (!d || d->kind != K_UCS4) { sum.fail("lane=ucs4\ttc=" + get(q, "tc"), "not a UCS-4 transcoder"); return; }
    Tc tc(d); long w = geti(q, "worker", 0), nw = geti(q, "nworkers", 1);
    Sub& s = sum.subs[std::string("ucs4-out-of-range:") + d->name]; s.exhaustive = false;
    std::vector<uint32_t> vals;
    for (uint32_t v = 0xD800; v <= 0xDFFF; v++) vals.push_back(v);
    static const uint32_t lows[] = {0x0000, 0x0041, 0x03FF, 0x0400, 0xD800, 0xDC00, 0xFFFE, 0xFFFF};
    for (uint32_t hi = 0x11; hi <= 0xFFFF; hi++) for (int k = 0; k < 8; k++) vals.push_back((hi << 16) | lows[k]);
    for (size_t i = 0; i < vals.size(); i++) {
        if ((long)(i % nw) != w) continue;
        if (sum.skipping(F_UCS4_RANGE)) { sum.excl[F_UCS4_RANGE]++; continue; }
        std::string why = checkUcs4Bad(tc, vals[i], sum); s.eval++; s.nontriv++;
        sum.labels[vals[i] < 0x10000 ? "ucs4:surrogate-value" : "ucs4:above-10FFFF"]++;
        if (!why.empty()) sum.fail("lane=ucs4\ttc=" + std::string(d->name) + "\tval=" + hx(vals[i]), why);
    }
    // truncated final unit (1..3 bytes) must stay uneaten
    if (w == 0) for (int cut = 1; cut <= 3; cut++) {
        Bytes A; refEncode(d, 0x10FFFF, A); Bytes src = A; src.insert(src.end(), A.begin(), A.begin() + cut);
        FromRes f; callFrom(tc, &src[0], src.size(), 8, f); s.eval++; s.nontriv++; sum.labels["ucs4:truncated-unit"]++;
        Units ex; unitsOf(0x10FFFF, ex);
        if (!f.bad.empty() || f.exc || f.out != ex || f.eaten != 4) sum.fail("lane=ucs4\ttc=" + std::string(d->name) + "\tsrc=" + hexB(src), "truncated trailing unit: got [" + hexU(f.out) + "] eaten=" + std::to_string(f.eaten) + " " + f.bad);
    }
}

// ================================================================================================
// lane: page -- all 256 bytes of a single byte page against ICU's table for the same page
// ================================================================================================
static std::string checkPageByte(Tc& tc, int b, Sum& sum, bool& counted) {
    const TcDesc* d = tc.d; IcuRef* r = refFor(d); counted = false;
    if (!r || !r->c) return "no ICU reference converter for " + std::string(d->icuRef);
    if (r->xbytes.count(b)) { sum.labels["dropped:third-witness(python codecs)"]++; return ""; }
    uint8_t src[3] = {(uint8_t)b, (uint8_t)b, (uint8_t)b};
    if (!r->def[b]) {
        if (d->icuProvided && sum.skipping(F_ICU_SUBST)) { sum.excl[F_ICU_SUBST]++; return ""; }
        counted = true; sum.labels["page:undefined-byte"]++;
        Loop L; decodeLoop(tc, src, 1, 4, L, true);
        if (!L.bad.empty()) return L.bad;
        if (!L.exc) return "byte " + hx(b) + " is not assigned in " + d->icuRef + " but was decoded to [" + hexU(L.out) + "]";
        return "";
    }
    counted = true; sum.labels["page:defined-byte"]++;
    for (size_t n = 1; n <= 3; n += 2) {
        FromRes f; callFrom(tc, src, n, 4, f);
        if (!f.bad.empty()) return f.bad;
        Units ex(n, (XMLCh)r->to[b]);
        if (r->ambB.count(b)) { Units ex2(n, (XMLCh)r->alt[b]); if (n == 1) sum.labels["lenient:EBCDIC NL/LF variant byte"]++; if (!f.exc && f.out == ex2 && f.eaten == n) continue; }
        if (f.exc || f.out != ex || f.eaten != n) return "byte " + hx(b) + " decoded to [" + hexU(f.out) + "] exc=" + excName(f.exc) + "; ICU " + d->icuRef + " says " + hx(r->to[b]);
        for (size_t i = 0; i < n; i++) if (f.sizes[i] != 1) return "charSizes != 1";
    }
    return "";
}
static void lanePage(const Req& q, Sum& sum) {
    const TcDesc* d = findTc(get(q, "tc")); if (!d || d->kind != K_SB) { sum.fail("lane=page\ttc=" + get(q, "tc"), "not a single byte page"); return; }
    Tc tc(d); if (!tc.t) { sum.fail("lane=page\ttc=" + std::string(d->name), "makeNewTranscoderFor returned null"); return; }
    long w = geti(q, "worker", 0), nw = geti(q, "nworkers", 1);
    Sub& s = sum.subs[std::string("page:") + d->name]; s.exhaustive = true;
    for (int b = 0; b < 256; b++) {
        if ((long)(b % nw) != w) continue;
        bool counted; std::string why = checkPageByte(tc, b, sum, counted);
        if (counted) { s.eval++; if (b >= 0x80 || d->ebcdic) s.nontriv++; }
        if (!why.empty()) sum.fail("lane=page\ttc=" + std::string(d->name) + "\tbyte=" + hx(b), why);
    }
    sum.labels[std::string("tc:") + d->name] += s.eval;
}

// ================================================================================================
// lane: surr -- ill-formed UTF-16 given to transcodeTo: never a character, never a silent loss
// ================================================================================================
static std::string checkSurr(Tc& tc, const Units& u, Sum& sum, bool& skipped) {
    const TcDesc* d = tc.d; skipped = false;
    bool hiFirst = u[0] >= 0xD800 && u[0] <= 0xDBFF;
    if (d->kind == K_UTF8 && sum.skipping(F_UTF8_SURR)) { skipped = true; sum.excl[F_UTF8_SURR]++; return ""; }
    if (d->kind == K_UCS4 && !hiFirst && sum.skipping(F_UCS4_LOWSURR)) { skipped = true; sum.excl[F_UCS4_LOWSURR]++; return ""; }
    size_t pad = 0; if (d->icuProvided && sum.skipping(F_ICU_OVERREAD)) { pad = 1; }
    ToRes t; callTo(tc, &u[0], u.size(), 16, XMLTranscoder::UnRep_Throw, t, pad);
    if (!t.bad.empty()) return t.bad;
    if (t.exc == E_TRANSCODING) return "";
    if (t.exc) return std::string("threw ") + excName(t.exc);
    if (hiFirst && u.size() == 1 && t.eaten == 0 && t.out.empty()) return "";      // a lead surrogate at the end of a block waits for its trail
    if (hiFirst && u.size() == 1 && d->icuProvided && t.out.empty()) return "";      // ... inside the ICU converter (streaming state)
    return "ill-formed UTF-16 [" + hexU(u) + "] was encoded as " + hexB(t.out) + " (eaten=" + std::to_string(t.eaten) + ") instead of being reported";
}
static void laneSurr(const Req& q, Sum& sum) {
    const TcDesc* d = findTc(get(q, "tc")); if (!d || d->kind == K_UTF16 || d->kind == K_XMLCH) { sum.fail("lane=surr\ttc=" + get(q, "tc"), "lane does not apply"); return; }
    Tc tc(d); if (!tc.t) return; long w = geti(q, "worker", 0), nw = geti(q, "nworkers", 1);
    Sub& s = sum.subs[std::string("unpaired-surrogate-encode:") + d->name]; s.exhaustive = false;
    static const unsigned nxt[] = {0x0041, 0xD800, 0xDBFF, 0xE000};
    for (unsigned a = 0xD800; a <= 0xDFFF; a++) {
        if ((long)(a % nw) != w) continue;
        for (int k = -1; k < 4; k++) {
            Units u; u.push_back((XMLCh)a); if (k >= 0) { if (a >= 0xDC00 && k > 0) continue; u.push_back((XMLCh)nxt[k]); }
            bool sk; std::string why = checkSurr(tc, u, sum, sk); if (sk) continue;
            s.eval++; s.nontriv++; sum.labels[a < 0xDC00 ? (k < 0 ? "surr:lead-at-end" : "surr:lead+non-trail") : "surr:lone-trail"]++;
            if (!why.empty()) sum.fail("lane=surr\ttc=" + std::string(d->name) + "\tunits=" + hexU(u), why);
        }
    }
}

// ================================================================================================
// split: one source, every block size 1..40 and every split position between two reads
// ================================================================================================
// decode direction.  src = encoded cps (minus `tail` bytes cut off the end), expect = units of the complete characters
static std::string splitFromOne(const TcDesc* d, const Bytes& src, const Units& expect, size_t completeLen, size_t m, size_t k, bool strictTail) {
    Tc tc(d); if (!tc.t) return "no transcoder";
    Units acc; size_t fed = 0;               // bytes [0, avail) are visible to the transcoder; consumed = eaten so far
    size_t consumed = 0; size_t avail = k; int phase = 0; int guard = 0;
    while (true) {
        if (guard++ > 20000) return "no termination";
        size_t mc = m;
        FromRes f; callFrom(tc, src.empty() ? (const uint8_t*)"" : &src[0] + consumed, avail - consumed, mc, f);
        if (!f.bad.empty()) return f.bad;
        if (f.exc) return std::string("threw ") + excName(f.exc) + " at offset " + std::to_string(consumed);
        if (f.eaten == 0 && !f.out.empty() && !d->icuProvided) return "chars without bytes";
        if (f.eaten == 0 && f.out.empty() && avail - consumed > 0 && m == 1) {
            // a supplementary character needs two output slots: allowed to wait when only one is offered
            FromRes g; callFrom(tc, &src[0] + consumed, avail - consumed, 2, g);
            if (!g.bad.empty()) return g.bad; if (g.exc) return std::string("threw ") + excName(g.exc);
            if (g.eaten && !(g.out.size() == 2 && g.out[0] >= 0xD800 && g.out[0] <= 0xDBFF)) return "no progress with maxChars=1 although the next character is a single unit";
            f = g;
        }
        if (d->kind != K_MB) { size_t s = 0; for (size_t i = 0; i < f.sizes.size(); i++) s += f.sizes[i]; if (s != f.eaten) return "sum(charSizes)=" + std::to_string(s) + " != bytesEaten=" + std::to_string(f.eaten); }
        acc.insert(acc.end(), f.out.begin(), f.out.end()); consumed += f.eaten;
        if (acc.size() > expect.size() || !std::equal(acc.begin(), acc.end(), expect.begin())) return "block-wise result [" + hexU(acc) + "] is not a prefix of the one-shot result [" + hexU(expect) + "]";
        if ((f.eaten == 0 && f.out.empty()) || (consumed == avail && !d->icuProvided)) { if (phase == 0) { phase = 1; avail = src.size(); if (consumed == avail && !d->icuProvided) break; continue; } break; }
    }
    if (acc != expect) return "block-wise result [" + hexU(acc) + "] != expected [" + hexU(expect) + "] (consumed " + std::to_string(consumed) + " of " + std::to_string(src.size()) + ")";
    if (strictTail) { if (consumed != completeLen) return "consumed " + std::to_string(consumed) + " bytes; the complete characters end at " + std::to_string(completeLen) + " (a trailing incomplete sequence must stay uneaten)"; }
    else if (consumed < completeLen) return "consumed only " + std::to_string(consumed) + " of " + std::to_string(completeLen);
    return "";
}
static std::string splitToOne(const TcDesc* d, const Units& src, const Bytes& expect, size_t completeUnits, size_t m, size_t k, size_t minBytes) {
    Tc tc(d); if (!tc.t) return "no transcoder";
    Bytes acc; size_t consumed = 0, avail = k; int phase = 0, guard = 0;
    while (true) {
        if (guard++ > 20000) return "no termination";
        ToRes t; callTo(tc, src.empty() ? (const XMLCh*)u"" : &src[0] + consumed, avail - consumed, m, XMLTranscoder::UnRep_Throw, t);
        if (!t.bad.empty()) return t.bad;
        if (t.exc) return std::string("threw ") + excName(t.exc) + " at unit " + std::to_string(consumed);
        if (t.eaten == 0 && !t.out.empty()) return "bytes without chars";
        if (t.eaten == 0 && avail - consumed > 0 && m < minBytes) {
            ToRes g; callTo(tc, &src[0] + consumed, avail - consumed, minBytes, XMLTranscoder::UnRep_Throw, g);
            if (!g.bad.empty()) return g.bad; if (g.exc) return std::string("threw ") + excName(g.exc);
            if (g.eaten && g.out.size() <= m) return "no progress with maxBytes=" + std::to_string(m) + " although the next character needs only " + std::to_string(g.out.size()) + " bytes";
            // take exactly one character's worth: re-run is not possible on a stateful converter, so accept g as the step
            t = g;
        }
        acc.insert(acc.end(), t.out.begin(), t.out.end()); consumed += t.eaten;
        if (acc.size() > expect.size() || !std::equal(acc.begin(), acc.end(), expect.begin())) return "block-wise result " + hexB(acc) + " is not a prefix of the one-shot result " + hexB(expect);
        if (t.eaten == 0 || consumed == avail) { if (phase == 0) { phase = 1; avail = src.size(); if (consumed == avail) break; continue; } break; }
    }
    if (d->icuProvided) for (int i = 0; i < 4 && acc.size() < expect.size(); i++) {     // an ICU converter may still hold output bytes: flush with an empty source
        ToRes t; callTo(tc, (const XMLCh*)u"", 0, m < 8 ? 8 : m, XMLTranscoder::UnRep_Throw, t);
        if (!t.bad.empty()) return t.bad; if (t.exc) return std::string("flush threw ") + excName(t.exc);
        acc.insert(acc.end(), t.out.begin(), t.out.end());
    }
    if (acc != expect) return "block-wise result " + hexB(acc) + " != expected " + hexB(expect);
    if (consumed != completeUnits) return "consumed " + std::to_string(consumed) + " units, expected " + std::to_string(completeUnits) + " (a lead surrogate at the end of the source must stay uneaten)";
    return "";
}
// fields: tc, dir=from|to, cps=hex list, tail=<n> (decode: cut n bytes off the end; encode: 1 = cut the final trail surrogate),
//         py=<hex of python's encoding of cps> (second witness), optional m,k (single combination)
static std::string runSplit(const Req& q, Sum& sum) {
    const TcDesc* d = findTc(get(q, "tc")); if (!d) return "BAD\tunknown transcoder\n";
    std::vector<uint32_t> cps = unhexList(get(q, "cps")); std::string dir = get(q, "dir", "from"); long tail = geti(q, "tail", 0);
    Bytes enc; Units units; std::vector<size_t> cEndB, cEndU;
    for (size_t i = 0; i < cps.size(); i++) { Bytes e; int rep = refEncode(d, cps[i], e); if (rep != 1) return "DROP\tunrepresentable or ambiguous code point " + hx(cps[i]) + "\n"; enc.insert(enc.end(), e.begin(), e.end()); unitsOf(cps[i], units); cEndB.push_back(enc.size()); cEndU.push_back(units.size()); }
    if (dir == "to" && d->kind == K_UCS4 && d->bigEndian != (bool)XMLPlatformUtils::fgXMLChBigEndian && sum.skipping(F_UCS4_SWAP))
        for (size_t i = 0; i < cps.size(); i++) if (cps[i] >= 0x10000) return std::string("SKIP\t") + F_UCS4_SWAP + "\n";
    if (q.count("py")) { Bytes py = unhexB(get(q, "py")); if (py != enc) return "DISAGREE\tharness reference " + hexB(enc) + " python " + hexB(py) + "\n"; }
    Units expectU = units;
    if (d->kind == K_MB) { if (!refFor(d)->icuDecode(enc, expectU)) return "DROP\tICU cannot decode its own encoding\n"; if (expectU != units) return "DROP\tnot a round-trip mapping in ICU\n"; }
    size_t m0 = 1, m1 = 40, k0 = 0, k1 = (size_t)-1; bool single = q.count("m") != 0;
    if (single) { m0 = m1 = (size_t)geti(q, "m"); k0 = k1 = (size_t)geti(q, "k"); }
    std::string item = "lane=split\ttc=" + std::string(d->name) + "\tdir=" + dir + "\tcps=" + get(q, "cps") + "\ttail=" + std::to_string(tail);
    if (dir == "from") {
        Bytes src = enc; size_t complete = enc.size(); Units expect = expectU;
        if (tail > 0 && !cps.empty()) {
            size_t lastStart = cps.size() > 1 ? cEndB[cps.size() - 2] : 0; size_t lastLen = enc.size() - lastStart;
            if ((size_t)tail >= lastLen) return "DROP\ttail does not leave an incomplete sequence\n";
            src.resize(enc.size() - tail); complete = lastStart; expect.resize(cps.size() > 1 ? cEndU[cps.size() - 2] : 0);
            if (d->kind == K_UTF16 || d->kind == K_XMLCH) {      // the unit of these transcoders is the 16-bit code unit, not the character
                if (tail % 2 == 0) return "DROP\teven tail leaves no incomplete unit\n";
                complete = (src.size() / 2) * 2; expect = units; expect.resize(src.size() / 2);
            }
        }
        bool strictTail = !d->icuProvided;     // an ICU converter buffers an incomplete sequence internally
        if (k1 == (size_t)-1) k1 = src.size();
        for (size_t m = m0; m <= m1; m++) for (size_t k = k0; k <= k1 && k <= src.size(); k++) {
            std::string why = splitFromOne(d, src, expect, complete, m, k, strictTail);
            if (!why.empty()) return "FAIL\t" + item + "\tm=" + std::to_string(m) + "\tk=" + std::to_string(k) + "\tsrc=" + hexB(src) + "\twhy=" + why + "\n";
        }
        // TranscodeFromStr agrees with the raw API
        if (!single) {
            Tc tc(d); int exc = 0; Units got;
            try { TranscodeFromStr x(src.empty() ? (const XMLByte*)"" : &src[0], src.size(), tc.t); got.assign(x.str(), x.str() + x.length()); } catch (const XMLException&) { exc = 1; } catch (...) { exc = 2; }
            if (tail == 0 && (exc || got != expect)) return "FAIL\t" + item + "\tsrc=" + hexB(src) + "\twhy=TranscodeFromStr gave [" + hexU(got) + "] exc=" + std::to_string(exc) + " expected [" + hexU(expect) + "]\n";
            if (tail > 0 && !d->icuProvided && exc != 1) return "FAIL\t" + item + "\tsrc=" + hexB(src) + "\twhy=TranscodeFromStr accepted a truncated sequence as [" + hexU(got) + "]\n";
        }
    } else {
        Units src = units; size_t complete = units.size(); Bytes expect = enc;
        if (tail > 0 && !cps.empty()) {
            if (cps.back() < 0x10000) return "DROP\ttail needs a supplementary last character\n";
            src.pop_back(); complete = src.size() - 1; expect.resize(cps.size() > 1 ? cEndB[cps.size() - 2] : 0);
            if (d->kind == K_UTF16 || d->kind == K_XMLCH) { complete = src.size(); Bytes e; Units one(1, src.back()); for (size_t i = 0; i < 1; i++) { uint8_t lo = one[0] & 0xFF, hi = one[0] >> 8; if (d->kind == K_UTF16 && d->bigEndian) { expect.push_back(hi); expect.push_back(lo); } else { expect.push_back(lo); expect.push_back(hi); } } }
            else if (d->kind == K_SB || d->kind == K_MB) return "DROP\tlead surrogate is unrepresentable here\n";
        }
        size_t minBytes = d->kind == K_UTF16 || d->kind == K_XMLCH ? 2 : 4;
        if (d->icuProvided && sum.skipping(F_ICU_SMALLBUF)) { if (!single) m0 = 8; sum.excl[F_ICU_SMALLBUF] += 7 * (src.size() + 1); }
        if (k1 == (size_t)-1) k1 = src.size();
        for (size_t m = m0; m <= m1; m++) for (size_t k = k0; k <= k1 && k <= src.size(); k++) {
            std::string why = splitToOne(d, src, expect, complete, m, k, minBytes);
            if (!why.empty()) return "FAIL\t" + item + "\tm=" + std::to_string(m) + "\tk=" + std::to_string(k) + "\tsrc=" + hexU(src) + "\twhy=" + why + "\n";
        }
        bool strOverflow = d->icuProvided && expect.size() > src.size() * 2 + 4;       // TranscodeToStr's first buffer is 2*len+4 bytes
        if (strOverflow && sum.skipping(F_ICU_SMALLBUF)) sum.excl[F_ICU_SMALLBUF]++;
        if (!single && tail == 0 && !(strOverflow && sum.skipping(F_ICU_SMALLBUF))) {
            Tc tc(d); int exc = 0; Bytes got;
            try { TranscodeToStr x(src.empty() ? (const XMLCh*)u"" : &src[0], src.size(), tc.t); got.assign(x.str(), x.str() + x.length()); } catch (const XMLException&) { exc = 1; } catch (...) { exc = 2; }
            if (exc || got != expect) return "FAIL\t" + item + "\tsrc=" + hexU(src) + "\twhy=TranscodeToStr gave " + hexB(got) + " exc=" + std::to_string(exc) + " expected " + hexB(expect) + "\n";
        }
    }
    std::string o = "OK\t" + std::to_string((m1 - m0 + 1)) + "\n";
    for (std::map<std::string, long>::const_iterator i = sum.excl.begin(); i != sum.excl.end(); ++i) o += "EXCL\t" + i->first + "\t" + std::to_string(i->second) + "\n";
    return o;
}


// ================================================================================================
// lane: deep -- a valid run of L characters + ONE illegal unit + a valid tail: the illegal unit must be rejected wherever it
// sits in a block (one-shot and block-wise calls, with and without a split between two reads).  Never: consumed silently.
// ================================================================================================
struct DeepSrc { Bytes src; Units expect; std::vector<long> unitsAt; size_t p; };      // unitsAt[byte offset] = #units decoded so far, -1 inside a character
static bool deepBuild(const TcDesc* d, size_t L, const std::string& run, const Bytes& bad, DeepSrc& o) {
    static const uint32_t mixed[] = {0x61, 0xE9, 0x20AC, 0x62, 0x1F600, 0x7A, 0x4E2D, 0x10FFFF};
    o = DeepSrc(); o.unitsAt.push_back(0);
    for (size_t i = 0; i < L; i++) {
        uint32_t cp = run == "mixed" ? mixed[i % 8] : (uint32_t)(0x61 + i % 26);
        Bytes e; if (refEncode(d, cp, e) != 1) { cp = 0x61 + i % 26; if (refEncode(d, cp, e) != 1) return false; }
        o.src.insert(o.src.end(), e.begin(), e.end()); unitsOf(cp, o.expect);
        for (size_t k = 1; k < e.size(); k++) o.unitsAt.push_back(-1);
        o.unitsAt.push_back((long)o.expect.size());
    }
    o.p = o.src.size();
    o.src.insert(o.src.end(), bad.begin(), bad.end());
    static const char tail[] = "<tail>xy";
    for (size_t i = 0; i < 8; i++) { Bytes e; if (refEncode(d, (uint32_t)tail[i], e) != 1) return false; o.src.insert(o.src.end(), e.begin(), e.end()); }
    return true;
}
static std::string deepOne(const TcDesc* d, const DeepSrc& S, size_t m, size_t k) {
    Tc tc(d, m > CAP ? BIGCAP : CAP); if (!tc.t) return "no transcoder";
    Units acc; size_t consumed = 0, avail = k < S.src.size() ? k : S.src.size(); int phase = avail == S.src.size() ? 1 : 0; int guard = 0;
    while (true) {
        if (guard++ > 40000) return "no termination";
        FromRes f; callFrom(tc, S.src.empty() ? (const uint8_t*)"" : &S.src[0] + consumed, avail - consumed, m, f);
        if (!f.bad.empty()) return f.bad;
        if (f.exc) { if (f.exc != E_UTFDATA && f.exc != E_TRANSCODING) return std::string("rejected with ") + excName(f.exc); return ""; }      // rejected: fine
        if (f.eaten == 0 && f.out.empty() && m == 1 && avail > consumed) { callFrom(tc, &S.src[0] + consumed, avail - consumed, 2, f); if (!f.bad.empty()) return f.bad; if (f.exc) return ""; }
        if (!d->icuProvided) { size_t sz = 0; for (size_t i = 0; i < f.sizes.size(); i++) sz += f.sizes[i]; if (sz != f.eaten) return "sum(charSizes)=" + std::to_string(sz) + " != bytesEaten=" + std::to_string(f.eaten) + " at offset " + std::to_string(consumed); }
        acc.insert(acc.end(), f.out.begin(), f.out.end()); consumed += f.eaten;
        if (acc.size() > S.expect.size() || !std::equal(acc.begin(), acc.end(), S.expect.begin()))
            return "decoded [.. " + hexU(acc.size() > 4 ? &acc[acc.size() - 4] : (acc.empty() ? (const XMLCh*)u"" : &acc[0]), acc.size() > 4 ? 4 : acc.size()) + "] (" + std::to_string(acc.size()) + " units) which is not a prefix of the " + std::to_string(S.expect.size()) + " valid characters before the illegal unit";
        if (consumed > S.p && !d->icuProvided) return "the illegal unit at offset " + std::to_string(S.p) + " was consumed silently: bytesEaten reached " + std::to_string(consumed) + " with " + std::to_string(acc.size()) + " characters produced and no exception";
        if (consumed <= S.p && !d->icuProvided && S.unitsAt[consumed] != (long)acc.size()) return "bytesEaten=" + std::to_string(consumed) + " does not match the " + std::to_string(acc.size()) + " characters produced";
        if (f.eaten == 0 && f.out.empty()) {
            if (phase == 0) { phase = 1; avail = S.src.size(); continue; }
            return "the illegal unit at offset " + std::to_string(S.p) + " was neither rejected nor consumed (no progress at offset " + std::to_string(consumed) + ", no exception)";
        }
        if (consumed >= avail) { if (phase == 0) { phase = 1; avail = S.src.size(); continue; } return "the whole source was consumed without an exception although it contains an illegal unit at offset " + std::to_string(S.p); }
    }
}
// illegal units of a transcoder; skipId = finding that currently excludes them (or 0)
static void deepBadUnits(const TcDesc* d, unsigned seed, std::vector<Bytes>& out, const char*& skipId) {
    skipId = 0; out.clear();
    if (d->kind == K_UTF8) { static const char* b[] = {"80", "BF", "C080", "C1BF", "E08080", "EDA080", "F08FBFBF", "F4908080", "F880808080", "FF", "C2", "E282", "F09F98"}; for (size_t i = 0; i < 13; i++) out.push_back(unhexB(b[i])); }
    else if (d->kind == K_UCS4) { skipId = F_UCS4_RANGE; static const uint32_t v[] = {0x110000, 0xD800, 0xDFFF, 0xFFFFFFFF, 0x04010000}; for (size_t i = 0; i < 5; i++) { Bytes e; for (int j = 0; j < 4; j++) e.push_back((uint8_t)(v[i] >> (d->bigEndian ? 24 - 8 * j : 8 * j))); out.push_back(e); } }
    else if (d->kind == K_SB) { IcuRef* r = refFor(d); if (!r || !r->c) return; if (d->icuProvided) skipId = F_ICU_SUBST; std::vector<int> u; for (int b = 0; b < 256; b++) if (!r->def[b] && !r->xbytes.count(b)) u.push_back(b);
        if (u.empty()) return; std::set<int> pick; pick.insert(u.front()); pick.insert(u.back()); pick.insert(u[(seed * 2654435761u >> 8) % u.size()]); for (std::set<int>::iterator i = pick.begin(); i != pick.end(); ++i) out.push_back(Bytes(1, (uint8_t)*i)); }
    else if (d->kind == K_MB) { skipId = F_ICU_SUBST; std::string n = d->name; out.push_back(unhexB(n == "Shift_JIS" ? "8220" : n == "EUC-JP" ? "A441" : "81308120")); }
    // UTF-16 / XERCES-XMLCH: every 16-bit unit passes through (pairing is checked by the scanner): no illegal unit at this level
}
static void deepConfigs(size_t L, size_t n, size_t p, size_t badLen, bool thorough, std::vector<std::pair<size_t, size_t> >& cfg) {
    cfg.clear(); size_t big = L + 64 < BIGCAP ? L + 64 : BIGCAP;
    std::vector<size_t> ms;
    if (L <= 100) { static const size_t a[] = {1, 2, 7, 31, 32, 33, 34, 35, 64}; ms.assign(a, a + 9); if (thorough) for (size_t m = 3; m <= 40; m++) ms.push_back(m); }
    else { ms.push_back(33); ms.push_back(34); ms.push_back(1000); if (L > 16000) { ms.push_back(16384); ms.push_back(4096); } }
    ms.push_back(big);
    for (size_t i = 0; i < ms.size(); i++) cfg.push_back(std::make_pair(ms[i], n));
    size_t ks[] = {p, p + 1, p + badLen, p ? p - 1 : 0, 34, p / 2};
    for (size_t i = 0; i < 6; i++) if (ks[i] < n) { cfg.push_back(std::make_pair(big, ks[i])); cfg.push_back(std::make_pair((size_t)33, ks[i])); }
}
static std::vector<size_t> deepLengths() { std::vector<size_t> v; for (size_t l = 0; l <= 70; l++) v.push_back(l); v.push_back(100); v.push_back(1000); v.push_back(16383); v.push_back(16384); v.push_back(16385); return v; }
static void laneDeep(const Req& q, Sum& sum) {
    const TcDesc* d = findTc(get(q, "tc")); if (!d) { sum.fail("lane=deep\ttc=" + get(q, "tc"), "unknown transcoder"); return; }
    long w = geti(q, "worker", 0), nw = geti(q, "nworkers", 1); bool thorough = get(q, "tier", "quick") == "thorough"; unsigned seed = (unsigned)geti(q, "seed", 1);
    std::vector<Bytes> bads; const char* skipId; deepBadUnits(d, seed, bads, skipId);
    if (bads.empty()) return;
    Sub& s = sum.subs[std::string("deep:") + d->name + "(valid run L in 0..70,100,1000,16383..16385 + 1 illegal unit + tail; block sizes x split)"]; s.exhaustive = false;
    std::vector<size_t> Ls = deepLengths(); unsigned long idx = 0;
    std::vector<std::string> runs; runs.push_back("ascii"); if (d->kind == K_UTF8 || d->kind == K_UCS4 || d->kind == K_MB) runs.push_back("mixed");
    for (size_t li = 0; li < Ls.size(); li++) for (size_t bi = 0; bi < bads.size(); bi++) for (size_t ri = 0; ri < runs.size(); ri++) {
        if ((long)(idx++ % nw) != w) continue;
        if (!thorough && Ls[li] > 100 && bi % 4 != (seed + li) % 4 && bads.size() > 4) continue;          // quick: the long runs with a quarter of the illegal units
        DeepSrc S; if (!deepBuild(d, Ls[li], runs[ri], bads[bi], S)) continue;
        std::vector<std::pair<size_t, size_t> > cfg; deepConfigs(Ls[li], S.src.size(), S.p, bads[bi].size(), thorough, cfg);
        for (size_t c = 0; c < cfg.size(); c++) {
            if (skipId && sum.skipping(skipId)) { sum.excl[skipId]++; continue; }
            std::string why = deepOne(d, S, cfg[c].first, cfg[c].second); s.eval++; s.nontriv++;
            sum.labels[Ls[li] < 33 ? "deep:L<33" : Ls[li] <= 100 ? "deep:L=33..100" : "deep:L>=1000"]++;
            if (!why.empty()) sum.fail("lane=deep\ttc=" + std::string(d->name) + "\tL=" + std::to_string(Ls[li]) + "\trun=" + runs[ri] + "\tbad=" + hexB(bads[bi]) + "\tm=" + std::to_string(cfg[c].first) + "\tk=" + std::to_string(cfg[c].second), why);
        }
    }
    sum.labels[std::string("tc:") + d->name] += s.eval;
    sum.sample(std::string("deep ") + d->name + ": 'abc..'*L + illegal unit + '<tail>xy'");
}
static std::string itemDeep(const Req& q, Sum& sum) {
    const TcDesc* d = findTc(get(q, "tc")); if (!d) return "BAD\tunknown transcoder\n";
    std::vector<Bytes> bads; const char* skipId; deepBadUnits(d, 1, bads, skipId);
    if (skipId && sum.skipping(skipId)) return "SKIP\n";
    Bytes bad = unhexB(get(q, "bad")); size_t L = (size_t)geti(q, "L", 40); DeepSrc S; if (bad.empty() || L > 16400 || !deepBuild(d, L, get(q, "run", "ascii"), bad, S)) return "BAD\tcannot build\n";
    std::vector<std::pair<size_t, size_t> > cfg;
    if (q.count("m")) cfg.push_back(std::make_pair((size_t)geti(q, "m"), q.count("k") ? (size_t)geti(q, "k") : S.src.size())); else deepConfigs(L, S.src.size(), S.p, bad.size(), true, cfg);
    for (size_t c = 0; c < cfg.size(); c++) { if (cfg[c].first == 0 || cfg[c].first > BIGCAP) return "BAD\tm\n"; std::string why = deepOne(d, S, cfg[c].first, cfg[c].second); if (!why.empty()) return "FAIL\tm=" + std::to_string(cfg[c].first) + " k=" + std::to_string(cfg[c].second) + ": " + why + "\n"; }
    return "OK\n";
}

// ================================================================================================
// dispatch
// ================================================================================================
static void applyCommon(const Req& q, Sum& sum) {
    std::vector<std::string> sk = split(get(q, "skip"), ','); for (size_t i = 0; i < sk.size(); i++) if (!sk[i].empty()) sum.skip.insert(sk[i]);
    for (Req::const_iterator it = q.begin(); it != q.end(); ++it) if (it->first.compare(0, 3, "xb:") == 0) { std::string n = it->first.substr(3); if (g_xbytes[n] != it->second) { g_xbytes[n] = it->second; size_t sl = n.find('/'); std::string base = sl == std::string::npos ? n : n.substr(0, sl); if (g_refs.count(base)) { delete g_refs[base]; g_refs.erase(base); } } }
}
static std::string hLane(const Req& q) {
    Sum sum; applyCommon(q, sum); std::string l = get(q, "lane");
    if (l == "scalar") laneScalar(q, sum); else if (l == "utf8") laneUtf8(q, sum); else if (l == "utf16") laneUtf16(q, sum);
    else if (l == "ucs4") laneUcs4(q, sum); else if (l == "page") lanePage(q, sum); else if (l == "surr") laneSurr(q, sum); else if (l == "deep") laneDeep(q, sum);
    else sum.fail("lane=" + l, "unknown lane");
    return sum.str();
}
// re-check one item: returns "OK\n" or "FAIL\t<why>\n" (or SKIP when the item falls into a skipped class)
static std::string hItem(const Req& q) {
    Sum sum; applyCommon(q, sum); std::string l = get(q, "lane"); std::string why;
    if (l == "split") return runSplit(q, sum);
    if (l == "deep") return itemDeep(q, sum);
    const TcDesc* d = findTc(get(q, "tc")); if (!d) return "BAD\tunknown transcoder\n";
    Tc tc(d); if (!tc.t) return "FAIL\tmakeNewTranscoderFor returned null\n";
    if (l == "scalar") why = checkScalar(tc, (uint32_t)strtoul(get(q, "cp").c_str(), 0, 16), sum);
    else if (l == "utf8") { Bytes b = unhexB(get(q, "src")); bool wf; if (b.empty() || b.size() > 8) return "BAD\tsrc\n"; why = checkUtf8(tc, &b[0], b.size(), sum, wf); }
    else if (l == "utf16") { Units u = unhexU(get(q, "units")); if (u.empty()) return "BAD\tunits\n"; why = checkUtf16(tc, u, sum); }
    else if (l == "ucs4") { if (q.count("val")) why = checkUcs4Bad(tc, (uint32_t)strtoul(get(q, "val").c_str(), 0, 16), sum); else return "BAD\tval\n"; }
    else if (l == "page") { bool c; why = checkPageByte(tc, (int)strtoul(get(q, "byte").c_str(), 0, 16) & 255, sum, c); }
    else if (l == "surr") { Units u = unhexU(get(q, "units")); bool sk; if (u.empty()) return "BAD\tunits\n"; why = checkSurr(tc, u, sum, sk); }
    else return "BAD\tunknown lane\n";
    if (!sum.excl.empty() && why.empty()) return "SKIP\n";
    return why.empty() ? "OK\n" : "FAIL\t" + why + "\n";
}
// tables of the ICU reference converters (for the python third witness) and of the transcoders under test
static std::string hTables(const Req& q) {
    std::string o;
    for (size_t i = 0; i < NTCS; i++) if (TCS[i].kind == K_SB) {
        IcuRef r(TCS[i].icuRef, true); if (!r.c) { o += std::string("NOREF\t") + TCS[i].name + "\n"; continue; }
        o += std::string("TABLE\t") + TCS[i].name + "\t" + TCS[i].icuRef + "\t";
        for (int b = 0; b < 256; b++) { o += r.def[b] ? hx(r.to[b]) : std::string("-"); o += b == 255 ? "\n" : ","; }
    }
    for (size_t i = 0; i < NTCS; i++) { XMLTransService::Codes rc; XMLTranscoder* t = XMLPlatformUtils::fgTransService->makeNewTranscoderFor(TCS[i].name, rc, 64); o += std::string("TC\t") + TCS[i].name + "\t" + (t ? "ok" : "missing") + "\n"; delete t; }
    return o;
}
// list the best-fit entries of the intrinsic table transcoders (code points accepted although no byte decodes to them)
static std::string hBestfit(const Req& q) {
    std::string o;
    for (size_t i = 0; i < NTCS; i++) if (TCS[i].table) {
        Tc tc(&TCS[i]); IcuRef* r = refFor(&TCS[i]);
        for (uint32_t cp = 1; cp < 0x10000; cp++) { if (isSurr(cp) || r->inv.count(cp)) continue; if (!tc.t->canTranscodeTo(cp)) continue;
            XMLCh u = (XMLCh)cp; ToRes t; callTo(tc, &u, 1, 4, XMLTranscoder::UnRep_Throw, t, 1); Bytes fb; int k = r->icuEncode(cp, fb, true);
            o += std::string("BESTFIT\t") + TCS[i].name + "\t" + hx(cp) + "\txerces=" + hexB(t.out) + "\ticu-fallback=" + (k == 1 ? hexB(fb) : std::string("-")) + "\n"; }
    }
    return o;
}
// raw API call for probing/witnesses: op=from|to|can
static std::string hRaw(const Req& q) {
    const TcDesc* d = findTc(get(q, "tc")); if (!d) return "BAD\n"; Tc tc(d); if (!tc.t) return "BAD\n"; std::string op = get(q, "op");
    if (op == "from") { Bytes b = unhexB(get(q, "src")); FromRes f; callFrom(tc, b.empty() ? (const uint8_t*)"" : &b[0], b.size(), (size_t)geti(q, "max", 16), f); return std::string("exc=") + excName(f.exc) + "\tout=" + hexU(f.out) + "\teaten=" + std::to_string(f.eaten) + "\tsizes=" + hexB(f.sizes) + "\tbad=" + f.bad + "\n"; }
    if (op == "to") { Units u = unhexU(get(q, "src")); ToRes t; callTo(tc, u.empty() ? (const XMLCh*)u"" : &u[0], u.size(), (size_t)geti(q, "max", 16), geti(q, "rep", 0) ? XMLTranscoder::UnRep_RepChar : XMLTranscoder::UnRep_Throw, t, (size_t)geti(q, "pad", 0)); return std::string("exc=") + excName(t.exc) + "\tout=" + hexB(t.out) + "\teaten=" + std::to_string(t.eaten) + "\tbad=" + t.bad + "\n"; }
    if (op == "can") return std::string("can=") + (tc.t->canTranscodeTo((unsigned)strtoul(get(q, "cp").c_str(), 0, 16)) ? "1" : "0") + "\n";
    return "BAD\n";
}

int main(int argc, char** argv) {
    XMLPlatformUtils::Initialize();
    int rc = 0;
    if (argc > 1) {
        Req q; for (int i = 1; i < argc; i++) { std::string a = argv[i]; size_t eq = a.find('='); if (eq != std::string::npos) q[a.substr(0, eq)] = a.substr(eq + 1); }
        std::string kind = get(q, "kind", "lane");
        std::string out = kind == "item" ? hItem(q) : kind == "tables" ? hTables(q) : kind == "raw" ? hRaw(q) : kind == "bestfit" ? hBestfit(q) : hLane(q);
        fwrite(out.data(), 1, out.size(), stdout);
    } else {
        std::map<std::string, Handler> hs;
        hs["lane"] = hLane; hs["item"] = hItem; hs["tables"] = hTables; hs["raw"] = hRaw; hs["bestfit"] = hBestfit;
        rc = serve(hs);
    }
    for (std::map<std::string, IcuRef*>::iterator it = g_refs.begin(); it != g_refs.end(); ++it) delete it->second;
    XMLPlatformUtils::Terminate();
    return rc;
}
