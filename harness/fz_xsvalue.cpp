// fz_xsvalue: libFuzzer target for C01 -- any lexical string through XSValue (validate / getActualValue / getCanonicalRepresentation)
// for every DataType, and through the built-in DatatypeValidators.  Oracle: sanitizers + exception audit.
#include "xvcommon.hpp"
#include <fuzzer/FuzzedDataProvider.h>
#include <xercesc/framework/psvi/XSValue.hpp>
#include <xercesc/validators/datatype/DatatypeValidatorFactory.hpp>
#include <xercesc/validators/datatype/DatatypeValidator.hpp>
#include <xercesc/validators/schema/SchemaSymbols.hpp>
using namespace xv;
static bool g_init = false;
// the string-level targets take UTF-16 strings from strictly valid UTF-8 only: lone surrogates are not text (and only reachable through the raw API)
static bool validUtf8(const std::string& s) {
    size_t i = 0, n = s.size();
    while (i < n) {
        unsigned c = (unsigned char)s[i]; int k; unsigned cp;
        if (c < 0x80) { i++; continue; }
        else if (c >= 0xC2 && c <= 0xDF) { k = 1; cp = c & 0x1F; }
        else if (c >= 0xE0 && c <= 0xEF) { k = 2; cp = c & 0x0F; }
        else if (c >= 0xF0 && c <= 0xF4) { k = 3; cp = c & 0x07; }
        else return false;
        for (int j = 1; j <= k; j++) { if (i + j >= n) return false; unsigned t = (unsigned char)s[i + j]; if ((t & 0xC0) != 0x80) return false; cp = (cp << 6) | (t & 0x3F); }
        if ((k == 2 && (cp < 0x800 || (cp >= 0xD800 && cp <= 0xDFFF))) || (k == 3 && (cp < 0x10000 || cp > 0x10FFFF))) return false;
        i += k + 1;
    }
    return true;
}
static void die(const char* why) { fprintf(stderr, "\n==XV-ORACLE== %s\n", why); fflush(stderr); __builtin_trap(); }
extern "C" int LLVMFuzzerTestOneInput(const uint8_t* data, size_t size) {
    if (!g_init) { g_init = true; XMLPlatformUtils::Initialize(); }
    if (size > 400) return 0;
    FuzzedDataProvider fdp(data, size);
    unsigned dt = fdp.ConsumeIntegralInRange<unsigned>(0, XSValue::dt_MAXCOUNT - 1);
    unsigned ver = fdp.ConsumeIntegralInRange<unsigned>(0, 1);
    unsigned what = fdp.ConsumeIntegralInRange<unsigned>(0, 3);
    std::string s = fdp.ConsumeRemainingBytesAsString();
    if (!validUtf8(s)) return 0;
    X xs(s);
    XSValue::Status st = XSValue::st_Init;
    try {
        if (what == 0) XSValue::validate(xs.c(), (XSValue::DataType)dt, st, ver ? XSValue::ver_11 : XSValue::ver_10);
        else if (what == 1) { XSValue* v = XSValue::getActualValue(xs.c(), (XSValue::DataType)dt, st, ver ? XSValue::ver_11 : XSValue::ver_10); delete v; }
        else if (what == 2) { XMLCh* c = XSValue::getCanonicalRepresentation(xs.c(), (XSValue::DataType)dt, st, ver ? XSValue::ver_11 : XSValue::ver_10);
                              if (c) XMLPlatformUtils::fgMemoryManager->deallocate(c); }
        else {
            static const XMLCh* names[] = { SchemaSymbols::fgDT_STRING, SchemaSymbols::fgDT_BOOLEAN, SchemaSymbols::fgDT_DECIMAL, SchemaSymbols::fgDT_FLOAT, SchemaSymbols::fgDT_DOUBLE,
                SchemaSymbols::fgDT_DURATION, SchemaSymbols::fgDT_DATETIME, SchemaSymbols::fgDT_TIME, SchemaSymbols::fgDT_DATE, SchemaSymbols::fgDT_YEARMONTH, SchemaSymbols::fgDT_YEAR,
                SchemaSymbols::fgDT_MONTHDAY, SchemaSymbols::fgDT_DAY, SchemaSymbols::fgDT_MONTH, SchemaSymbols::fgDT_HEXBINARY, SchemaSymbols::fgDT_BASE64BINARY, SchemaSymbols::fgDT_ANYURI,
                SchemaSymbols::fgDT_QNAME, SchemaSymbols::fgDT_NORMALIZEDSTRING, SchemaSymbols::fgDT_TOKEN, SchemaSymbols::fgDT_LANGUAGE, XMLUni::fgNmTokenString, XMLUni::fgNmTokensString,
                SchemaSymbols::fgDT_NAME, SchemaSymbols::fgDT_NCNAME, SchemaSymbols::fgDT_INTEGER, SchemaSymbols::fgDT_NONPOSITIVEINTEGER, SchemaSymbols::fgDT_NEGATIVEINTEGER,
                SchemaSymbols::fgDT_LONG, SchemaSymbols::fgDT_INT, SchemaSymbols::fgDT_SHORT, SchemaSymbols::fgDT_BYTE, SchemaSymbols::fgDT_NONNEGATIVEINTEGER, SchemaSymbols::fgDT_ULONG,
                SchemaSymbols::fgDT_UINT, SchemaSymbols::fgDT_USHORT, SchemaSymbols::fgDT_UBYTE, SchemaSymbols::fgDT_POSITIVEINTEGER };
            DatatypeValidator* dv = DatatypeValidatorFactory::getBuiltInRegistry()->get(names[dt % (sizeof names / sizeof names[0])]);
            if (dv) {
                try { dv->validate(xs.c()); } catch (const XMLException&) {}
                try { const XMLCh* c = dv->getCanonicalRepresentation(xs.c(), 0, true); if (c) XMLPlatformUtils::fgMemoryManager->deallocate((void*)c); } catch (const XMLException&) {}
                try { dv->compare(xs.c(), xs.c(), XMLPlatformUtils::fgMemoryManager); } catch (const XMLException&) {}
            }
        }
    }
    catch (const OutOfMemoryException&) {}
    catch (const XMLException&) {}
    catch (...) { die("foreign-exception from XSValue / DatatypeValidator"); }
    return 0;
}
