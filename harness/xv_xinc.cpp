// xv_xinc: executor for C20 (XInclude).  kind=xinc
//   request : top   = what is handed to parse()/parseURI(): a native path or a file: URL of the top document; the
//                     Python side has materialised the whole file tree below a per-worker temp directory
//             api   = dom (XercesDOMParser::parse(const char*)) | domls (DOMLSParser::parseURI)
//             feat  = feature string (ns=1;xinclude=1;...) -- see xvcommon.hpp configDOM/configDOMLS
//             res   = 0: no entity resolver installed (XIncludeUtils opens the computed location itself)
//                     1: a counting resolver is installed that answers "not mine" (null) for every request, so
//                        resolution is unchanged, but every fetch is logged (#R sysid base) and after `bound`
//                        fetches the resolver throws -- a deterministic progress bound for the termination clause
//             bound = max number of fetches (default 400)
//   The parse runs on a fresh thread with a 2 MB stack: unbounded recursive inclusion then ends in a (sanitizer-reported)
//   stack overflow after a few hundred levels instead of after minutes -- a deterministic signal, not a wall-clock one.
//   response: CED dump of the resulting DOM (dumpDomNode) + ERR/EXC lines, then
//             #DOCURI <documentURI>          #BASE <getBaseURI()> per element in document order (pre-order)
//             #FETCH <n> <boundhit 0|1>      #R <sysid> <base> per resolver call (first 64)
#include "xvcommon.hpp"
using namespace xv;

struct FetchBound {};

struct CountRes : public XMLEntityResolver {
    long n = 0, bound = 400; bool hit = false; std::vector<std::string> log;
    InputSource* resolveEntity(XMLResourceIdentifier* ri) {
        n++;
        if (log.size() < 64) log.push_back("#R\t" + esc(ri->getSystemId()) + "\t" + escN(ri->getBaseURI()));
        if (n > bound) { hit = true; throw FetchBound(); }
        return 0;
    }
};

static void dumpBases(std::string& out, const DOMNode* n, long& count) {
    if (n->getNodeType() == DOMNode::ELEMENT_NODE) { out += "#BASE\t" + escN(n->getBaseURI()) + "\n"; }
    count++;
    for (DOMNode* c = n->getFirstChild(); c; c = c->getNextSibling()) dumpBases(out, c, count);
}

// Document-level accessors of the merged document, next to what the child list says (the reference):
//   #DOCEL   <{ns}local of getDocumentElement() | \N>  <1 if it is the first element child of the Document>  <number of element children>
//   #DOCTYPE <name of getDoctype() | \N>  <name of the first DocumentType child | \N>
//   #DEPAR   <getDocumentElement()->getParentNode()==doc>  <->getOwnerDocument()==doc>
//   #NSLOOK  prefix uri  doc.lookupNamespaceURI(prefix) elem.~  doc.lookupPrefix(uri) elem.~  doc.isDefaultNamespace(uri) elem.~
//            one row per namespace declaration attribute on the element child (elem = that child, found through the child list);
//            Document::lookup* dereference getDocumentElement(), so with a NULL document element the row says NULL-DOCEL instead
static void dumpDocAccessors(std::string& out, DOMDocument* doc) {
    DOMNode* firstEl = 0; DOMNode* firstDt = 0; long nel = 0;
    for (DOMNode* c = doc->getFirstChild(); c; c = c->getNextSibling()) {
        if (c->getNodeType() == DOMNode::ELEMENT_NODE) { nel++; if (!firstEl) firstEl = c; }
        if (c->getNodeType() == DOMNode::DOCUMENT_TYPE_NODE && !firstDt) firstDt = c;
    }
    DOMElement* de = doc->getDocumentElement();
    char b[64];
    std::string nm = "\\N";
    if (de) { const XMLCh* ns = de->getNamespaceURI(); nm = "{" + (ns ? esc(ns) : std::string()) + "}" + esc(de->getLocalName() ? de->getLocalName() : de->getNodeName()); }
    snprintf(b, sizeof b, "\t%d\t%ld\n", (de && (DOMNode*)de == firstEl) ? 1 : 0, nel);
    out += "#DOCEL\t" + nm + b;
    DOMDocumentType* dt = doc->getDoctype();
    out += "#DOCTYPE\t" + (dt ? esc(dt->getName()) : std::string("\\N")) + "\t" + (firstDt ? esc(firstDt->getNodeName()) : std::string("\\N")) + "\n";
    if (de) { snprintf(b, sizeof b, "#DEPAR\t%d\t%d\n", de->getParentNode() == (DOMNode*)doc ? 1 : 0, de->getOwnerDocument() == doc ? 1 : 0); out += b; }
    else out += "#DEPAR\tNULL-DOCEL\n";
    if (!firstEl) return;
    DOMNamedNodeMap* at = firstEl->getAttributes();
    for (XMLSize_t i = 0; at && i < at->getLength(); i++) {
        DOMAttr* a = (DOMAttr*)at->item(i);
        if (!XMLString::equals(a->getNamespaceURI(), XMLUni::fgXMLNSURIName)) continue;
        const XMLCh* prefix = XMLString::equals(a->getNodeName(), XMLUni::fgXMLNSString) ? 0 : a->getLocalName();
        const XMLCh* uri = a->getValue();
        const XMLCh* luri = (uri && *uri) ? uri : 0;
        std::string row = "#NSLOOK\t" + (prefix ? esc(prefix) : std::string()) + "\t" + esc(uri);
        if (!de) { out += row + "\tNULL-DOCEL\n"; continue; }
        row += "\t" + escN(doc->lookupNamespaceURI(prefix)) + "\t" + escN(firstEl->lookupNamespaceURI(prefix));
        row += "\t" + escN(luri ? doc->lookupPrefix(luri) : 0) + "\t" + escN(luri ? firstEl->lookupPrefix(luri) : 0);
        row += std::string("\t") + (doc->isDefaultNamespace(luri) ? "1" : "0") + "\t" + (firstEl->isDefaultNamespace(luri) ? "1" : "0");
        out += row + "\n";
    }
}

static std::string hXinc(const Req& r) {
    std::string api = get(r, "api", "dom");
    Feat f(get(r, "feat", "ns=1;xinclude=1"));
    std::string top = get(r, "top");
    bool useRes = geti(r, "res", 0) != 0;
    CountRes res; res.bound = geti(r, "bound", 400);
    Dump d;
    std::string tail;
    long nodes = 0;
    try {
        if (api == "dom") {
            CapDOMParser p; p.xd = &d; configDOM(p, f, 0);
            Sax1Dump eh(d); p.setErrorHandler(&eh);
            if (useRes) p.setXMLEntityResolver(&res);
            p.parse(top.c_str());
            DOMDocument* dd = p.getDocument();
            DomDumpOpts o;
            if (dd) { dumpDomNode(d, dd, o); tail += "#DOCURI\t" + escN(dd->getDocumentURI()) + "\n"; dumpBases(tail, dd, nodes); dumpDocAccessors(tail, dd); }
        } else if (api == "domls") {
            CapDOMLS p; p.xd = &d; configDOMLS(p, f, 0);
            LSErr eh; p.getDomConfig()->setParameter(XMLUni::fgDOMErrorHandler, &eh);
            if (useRes) p.getDomConfig()->setParameter(XMLUni::fgXercesEntityResolver, (const void*)(XMLEntityResolver*)&res);
            DOMDocument* dd = p.parseURI(top.c_str());
            DomDumpOpts o;
            if (dd) { dumpDomNode(d, dd, o); tail += "#DOCURI\t" + escN(dd->getDocumentURI()) + "\n"; dumpBases(tail, dd, nodes); dumpDocAccessors(tail, dd); }
        } else {
            d.line("EXC\tBADAPI");
        }
    }
    catch (const FetchBound&) { d.line("EXC\tFETCHBOUND"); }
    XV_CATCH_ALL(d)
    std::string out = d.finish();
    out += tail;
    char b[120];
    snprintf(b, sizeof b, "#FETCH\t%ld\t%d\n#NODES\t%ld\n#STAT\t%ld\t%ld\t%ld\n", res.n, res.hit ? 1 : 0, nodes, d.nErr, d.nFatal, d.nWarn);
    out += b;
    for (size_t i = 0; i < res.log.size(); i++) out += res.log[i] + "\n";
    return out;
}

#include <pthread.h>
struct Job { const Req* r; std::string out; };
static void* jobMain(void* p) { Job* j = (Job*)p; j->out = hXinc(*j->r); return 0; }
static std::string hXincThread(const Req& r) {
    Job j; j.r = &r;
    pthread_attr_t at; pthread_attr_init(&at); pthread_attr_setstacksize(&at, (size_t)geti(r, "stackkb", 2048) * 1024);
    pthread_t t;
    if (pthread_create(&t, &at, jobMain, &j) != 0) return "EXC\tNOTHREAD\n";
    pthread_join(t, 0); pthread_attr_destroy(&at);
    return j.out;
}

int main() {
    XMLPlatformUtils::Initialize();
    std::map<std::string, Handler> hs;
    hs["xinc"] = hXincThread;
    int rc = serve(hs);
    XMLPlatformUtils::Terminate();
    return rc;
}
