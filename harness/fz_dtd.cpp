#define FZ_MODE 1
#include "fz_parse.cpp"
