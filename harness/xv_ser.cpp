// xv_ser: executor for C12 -- DOMLSSerializer round trip and XMLFormatter escaping.
//   kind=roundtrip   obtain a DOM (src=parse: bytes + ent: files; src=build: small creation script), serialise it with
//                    DOMLSSerializer, re-parse the output, compare, serialise the re-parsed tree again.
//   kind=format      XMLFormatter directly: items = lines "esc \t unrep \t encoding \t version \t string(escaped)"
// All strings in requests/responses that are not raw bytes use the \uXXXX escape of xvcommon.hpp (esc / U).
#include "xvcommon.hpp"
#include <xercesc/framework/MemBufFormatTarget.hpp>
#include <xercesc/framework/LocalFileFormatTarget.hpp>
#include <xercesc/framework/XMLFormatter.hpp>
#include <xercesc/util/TransService.hpp>
#include <xercesc/util/XMLUni.hpp>
#include <sys/stat.h>
using namespace xv;

static std::string g_tmpdir;

static std::string hex(const XMLByte* p, size_t n) {
    static const char* hx = "0123456789abcdef";
    std::string o; o.reserve(n * 2);
    for (size_t i = 0; i < n; i++) { o.push_back(hx[p[i] >> 4]); o.push_back(hx[p[i] & 15]); }
    return o;
}

struct SerErr : public DOMErrorHandler {
    std::string log; int n = 0; bool cont = true;
    bool handleError(const DOMError& e) {
        n++;
        const char* sev = e.getSeverity() == DOMError::DOM_SEVERITY_WARNING ? "W" : e.getSeverity() == DOMError::DOM_SEVERITY_ERROR ? "E" : "F";
        std::string node = "-";
        DOMLocator* l = e.getLocation();
        if (l && l->getRelatedNode()) { char b[16]; snprintf(b, sizeof b, "%d:", (int)l->getRelatedNode()->getNodeType()); node = b + esc(l->getRelatedNode()->getNodeName()); }
        log += std::string("SERR\t") + sev + "\t" + node + "\t" + esc(e.getMessage()) + "\n";
        return cont;
    }
};

struct SerOpts {
    std::string enc; bool xmldecl, split, discard, bom, entities; std::string target; std::string newline;
};

// serialise `node`; out = produced bytes, log = SERR/SEXC lines; returns serializer verdict (write() result)
static bool serialise(DOMImplementationLS* impl, const DOMNode* node, const SerOpts& so, std::string& out, std::string& log) {
    DOMLSSerializer* ser = impl->createLSSerializer();
    DOMConfiguration* c = ser->getDomConfig();
    SerErr eh;
    c->setParameter(XMLUni::fgDOMErrorHandler, (const void*)&eh);
    c->setParameter(XMLUni::fgDOMXMLDeclaration, so.xmldecl);
    c->setParameter(XMLUni::fgDOMWRTSplitCdataSections, so.split);
    c->setParameter(XMLUni::fgDOMWRTDiscardDefaultContent, so.discard);
    c->setParameter(XMLUni::fgDOMWRTBOM, so.bom);
    c->setParameter(XMLUni::fgDOMWRTEntities, so.entities);
    c->setParameter(XMLUni::fgDOMWRTFormatPrettyPrint, false);
    if (!so.newline.empty()) ser->setNewLine(U(so.newline).c());
    bool ok = false;
    out.clear();
    try {
        if (so.target == "string") {
            XMLCh* s = ser->writeToString(node);
            if (s) { ok = true; out.assign((const char*)s, XMLString::stringLen(s) * sizeof(XMLCh)); XMLString::release(&s); }
        } else if (so.target == "file") {
            std::string path = g_tmpdir + "/out.xml";
            remove(path.c_str());
            DOMLSOutput* o = impl->createLSOutput();
            o->setEncoding(X(so.enc).c());
            o->setSystemId(X(path).c());
            ok = ser->write(node, o);
            o->release();
            FILE* f = fopen(path.c_str(), "rb");
            if (f) { char buf[65536]; size_t k; while ((k = fread(buf, 1, sizeof buf, f)) > 0) out.append(buf, k); fclose(f); remove(path.c_str()); }
            else log += "SEXC\tNOFILE\n";
        } else {
            MemBufFormatTarget tgt(37);     // small initial size: growth path is exercised
            DOMLSOutput* o = impl->createLSOutput();
            o->setEncoding(X(so.enc).c());
            o->setByteStream(&tgt);
            ok = ser->write(node, o);
            o->release();
            out.assign((const char*)tgt.getRawBuffer(), tgt.getLen());
        }
    }
    catch (const OutOfMemoryException&) { log += "SEXC\tOutOfMemoryException\n"; }
    catch (const XMLException& e) { log += "SEXC\tXMLException\t" + esc(e.getType()) + "\t" + std::to_string((int)e.getCode()) + "\n"; }
    catch (const DOMLSException& e) { log += "SEXC\tDOMLSException\t" + std::to_string((int)e.code) + "\t" + esc(e.getMessage()) + "\n"; }
    catch (const DOMException& e) { log += "SEXC\tDOMException\t" + std::to_string((int)e.code) + "\n"; }
    catch (...) { log += "SEXC\tFOREIGN\n"; }
    log += eh.log;
    ser->release();
    return ok;
}

static void dumpDoc(std::string& o, const char* tag, const DOMNode* n) {
    Dump d; DomDumpOpts op;
    if (n->getNodeType() == DOMNode::DOCUMENT_NODE) {
        const DOMDocument* doc = (const DOMDocument*)n;
        d.line("DOCINFO\t" + escN(doc->getXmlVersion()) + "\t" + (doc->getXmlStandalone() ? "1" : "0"));
        if (doc->getDoctype()) d.line("INTSUB\t" + escN(doc->getDoctype()->getInternalSubset()));
    }
    dumpDomNode(d, n, op);
    o += std::string("#BEGIN\t") + tag + "\n" + d.finish() + "#END\t" + tag + "\n";
}

// ---- build script -----------------------------------------------------------------------------
//  one op per line, fields TAB separated, strings escaped.  Node table: index 0 = the Document; every creating op
//  appends one entry (null when the op threw).
//    el q | elns uri q | text s | cdata s | comment s | pi target data | eref name | frag
//    attr node name value | attrns node uri qname value | append parent child
//    version v | standalone 0/1 | doctype name pub sys   (only as the very first op: document created with that doctype)
static DOMDocument* buildDoc(DOMImplementation* impl, const std::string& script, std::vector<DOMNode*>& nodes, std::string& log) {
    std::vector<std::string> lines = split(script, '\n');
    DOMDocument* doc = 0;
    size_t start = 0;
    if (!lines.empty() && lines[0].compare(0, 8, "doctype\t") == 0) {
        std::vector<std::string> f = split(lines[0], '\t');
        try {
            DOMDocumentType* dt = impl->createDocumentType(U(f[1]).c(), f[2] == "\\N" ? 0 : U(f[2]).c(), f[3] == "\\N" ? 0 : U(f[3]).c());
            doc = impl->createDocument(); doc->appendChild(dt);
        } catch (const DOMException& e) { log += "OPEXC\t0\t" + std::to_string((int)e.code) + "\n"; }
        start = 1;
    }
    if (!doc) doc = impl->createDocument();
    nodes.push_back(doc);
    for (size_t i = start; i < lines.size(); i++) {
        if (lines[i].empty()) continue;
        std::vector<std::string> f = split(lines[i], '\t');
        while (f.size() < 5) f.push_back("");
        const std::string op = f[0];
        try {
            if (op == "el") { nodes.push_back(0); nodes.back() = doc->createElement(U(f[1]).c()); }
            else if (op == "elns") { nodes.push_back(0); nodes.back() = doc->createElementNS(f[1] == "\\N" ? 0 : U(f[1]).c(), U(f[2]).c()); }
            else if (op == "text") { nodes.push_back(0); nodes.back() = doc->createTextNode(U(f[1]).c()); }
            else if (op == "cdata") { nodes.push_back(0); nodes.back() = doc->createCDATASection(U(f[1]).c()); }
            else if (op == "comment") { nodes.push_back(0); nodes.back() = doc->createComment(U(f[1]).c()); }
            else if (op == "pi") { nodes.push_back(0); nodes.back() = doc->createProcessingInstruction(U(f[1]).c(), U(f[2]).c()); }
            else if (op == "eref") { nodes.push_back(0); nodes.back() = doc->createEntityReference(U(f[1]).c()); }
            else if (op == "frag") { nodes.push_back(0); nodes.back() = doc->createDocumentFragment(); }
            else if (op == "attr") { size_t k = (size_t)atol(f[1].c_str()); if (k < nodes.size() && nodes[k] && nodes[k]->getNodeType() == DOMNode::ELEMENT_NODE) ((DOMElement*)nodes[k])->setAttribute(U(f[2]).c(), U(f[3]).c()); }
            else if (op == "attrns") { size_t k = (size_t)atol(f[1].c_str()); if (k < nodes.size() && nodes[k] && nodes[k]->getNodeType() == DOMNode::ELEMENT_NODE) ((DOMElement*)nodes[k])->setAttributeNS(f[2] == "\\N" ? 0 : U(f[2]).c(), U(f[3]).c(), U(f[4]).c()); }
            else if (op == "append") { size_t p = (size_t)atol(f[1].c_str()), c = (size_t)atol(f[2].c_str()); if (p < nodes.size() && c < nodes.size() && nodes[p] && nodes[c]) nodes[p]->appendChild(nodes[c]); }
            else if (op == "version") doc->setXmlVersion(U(f[1]).c());
            else if (op == "standalone") doc->setXmlStandalone(f[1] == "1");
            else log += "OPEXC\t" + std::to_string(i) + "\tBADOP\n";
        }
        catch (const DOMException& e) { log += "OPEXC\t" + std::to_string(i) + "\t" + std::to_string((int)e.code) + "\n"; }
        catch (const XMLException& e) { log += "OPEXC\t" + std::to_string(i) + "\tXMLException\n"; }
    }
    return doc;
}

static DOMNode* nthElement(DOMNode* root, long& k) {
    // pre-order index among elements
    for (DOMNode* c = root->getFirstChild(); c; c = c->getNextSibling()) {
        if (c->getNodeType() == DOMNode::ELEMENT_NODE) { if (k == 0) return c; k--; }
        if (c->getNodeType() == DOMNode::ELEMENT_NODE) { DOMNode* r = nthElement(c, k); if (r) return r; }
    }
    return 0;
}

static std::string hRoundtrip(const Req& r) {
    std::string out;
    DOMImplementation* impl = DOMImplementationRegistry::getDOMImplementation(X("LS").c());
    DOMImplementationLS* ls = (DOMImplementationLS*)impl;
    Feat f(get(r, "feat"));
    EntStore st; st.load(r);
    MemResolver res(st);
    SerOpts so;
    so.enc = get(r, "enc", "UTF-8"); so.xmldecl = geti(r, "xmldecl", 1); so.split = geti(r, "split", 1); so.discard = geti(r, "discard", 1);
    so.bom = geti(r, "bom", 0); so.entities = geti(r, "entities", 1); so.target = get(r, "target", "mem"); so.newline = get(r, "newline", "");
    std::string src = get(r, "src", "parse");
    long sub = geti(r, "sub", -1);
    std::string force2 = get(r, "force2", "");      // forced encoding for the re-parse ("" = trust declaration / auto-detection)

    // ---- 1. the original tree
    Dump d1;
    CapDOMParser p1; p1.xd = &d1; configDOM(p1, f, 0);
    Sax1Dump eh1(d1); p1.setErrorHandler(&eh1);
    if (!st.ents.empty()) p1.setXMLEntityResolver(&res);
    DOMDocument* doc = 0; DOMDocument* built = 0;
    std::vector<DOMNode*> nodes;
    std::string docbytes = get(r, "doc");
    if (src == "parse") {
        try {
            MemBufInputSource is((const XMLByte*)docbytes.data(), docbytes.size(), X("mem:/doc.xml").c(), false);
            p1.parse(is);
            doc = p1.getDocument();
        }
        XV_CATCH_ALL(d1)
        std::string e = d1.finish();
        if (!e.empty() || !doc) { out += "#BEGIN\tparse1err\n" + e + "#END\tparse1err\n"; return out; }
    } else {
        std::string log;
        built = buildDoc(impl, get(r, "script"), nodes, log);
        out += log;
        doc = built;
    }
    DOMNode* target = doc;
    if (sub >= 0) {
        if (src == "parse") { long k = sub; target = nthElement(doc, k); }
        else target = ((size_t)sub < nodes.size()) ? nodes[(size_t)sub] : 0;
        if (!target) { out += "NOSUB\n"; if (built) built->release(); return out; }
    }
    // ---- 2. serialise
    std::string ser1, log1;
    bool ok1 = serialise(ls, target, so, ser1, log1);
    out += std::string("SER1\t") + (ok1 ? "1" : "0") + "\t" + hex((const XMLByte*)ser1.data(), ser1.size()) + "\n";
    out += "#BEGIN\tserlog1\n" + log1 + "#END\tserlog1\n";
    // ---- 3. re-parse the produced bytes
    Dump d2;
    CapDOMParser p2; p2.xd = &d2; configDOM(p2, f, 0);
    Sax1Dump eh2(d2); p2.setErrorHandler(&eh2);
    if (!st.ents.empty()) p2.setXMLEntityResolver(&res);
    DOMDocument* doc2 = 0;
    try {
        MemBufInputSource is((const XMLByte*)ser1.data(), ser1.size(), X("mem:/doc.xml").c(), false);
        if (!force2.empty()) is.setEncoding(X(force2).c());
        p2.parse(is);
        doc2 = p2.getDocument();
    }
    XV_CATCH_ALL(d2)
    std::string e2 = d2.finish();
    out += "#BEGIN\tparse2err\n" + e2 + "#END\tparse2err\n";
    // ---- 4. compare (after normalize() of both) and dump
    try {
        target->normalize();
        dumpDoc(out, "orig", target);
        if (doc2 && e2.empty()) {
            DOMNode* t2 = doc2;
            if (target->getNodeType() != DOMNode::DOCUMENT_NODE) t2 = doc2->getDocumentElement();
            if (t2) {
                t2->normalize();
                bool eq = target->isEqualNode(t2), eq2 = t2->isEqualNode(target);
                out += std::string("EQ\t") + (eq ? "1" : "0") + "\t" + (eq2 ? "1" : "0") + "\n";
                dumpDoc(out, "reparsed", t2);
                std::string ser2, log2;
                bool ok2 = serialise(ls, t2, so, ser2, log2);
                out += std::string("SER2\t") + (ok2 ? "1" : "0") + "\t" + hex((const XMLByte*)ser2.data(), ser2.size()) + "\n";
                out += "#BEGIN\tserlog2\n" + log2 + "#END\tserlog2\n";
            }
        }
    }
    catch (const DOMException& e) { out += "CMPEXC\tDOMException\t" + std::to_string((int)e.code) + "\n"; }
    catch (const XMLException& e) { out += "CMPEXC\tXMLException\t" + esc(e.getType()) + "\n"; }
    if (built) built->release();
    return out;
}

// ---- XMLFormatter -----------------------------------------------------------------------------
static std::string hFormat(const Req& r) {
    std::string out;
    std::vector<std::string> items = split(get(r, "items"), '\n');
    for (size_t i = 0; i < items.size(); i++) {
        if (items[i].empty()) continue;
        std::vector<std::string> f = split(items[i], '\t');
        while (f.size() < 5) f.push_back("");
        int escf = atoi(f[0].c_str()), unrep = atoi(f[1].c_str());
        U s(f[4]);
        MemBufFormatTarget tgt(16);
        std::string line;
        try {
            XMLFormatter fm(X(f[2]).c(), X(f[3]).c(), &tgt, XMLFormatter::NoEscapes, XMLFormatter::UnRep_Fail);
            fm.formatBuf(s.c(), s.len(), (XMLFormatter::EscapeFlags)escf, (XMLFormatter::UnRepFlags)unrep);
            line = "OK\t" + hex(tgt.getRawBuffer(), tgt.getLen());
        }
        catch (const OutOfMemoryException&) { line = "EXC\tOutOfMemoryException"; }
        catch (const XMLException& e) { line = "EXC\t" + esc(e.getType()) + "\t" + std::to_string((int)e.getCode()) + "\t" + hex(tgt.getRawBuffer(), tgt.getLen()); }
        catch (...) { line = "EXC\tFOREIGN"; }
        out += line + "\n";
    }
    return out;
}

int main() {
    XMLPlatformUtils::Initialize();
    {
        const char* t = getenv("TMPDIR");
        std::string tmpl = std::string(t && *t ? t : "/tmp") + "/verif.xvser.XXXXXX";
        std::vector<char> b(tmpl.begin(), tmpl.end()); b.push_back(0);
        if (mkdtemp(&b[0])) g_tmpdir = &b[0];
    }
    std::map<std::string, Handler> hs;
    hs["roundtrip"] = hRoundtrip;
    hs["format"] = hFormat;
    int rc = serve(hs);
    if (!g_tmpdir.empty()) { remove((g_tmpdir + "/out.xml").c_str()); rmdir(g_tmpdir.c_str()); }
    XMLPlatformUtils::Terminate();
    return rc;
}
