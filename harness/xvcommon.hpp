// xvcommon.hpp -- shared pieces of the /verif harness executables (header-only).
//   * request/response protocol over stdin/stdout
//   * canonical event dump (CED) for SAX1 / SAX2 / DOM
//   * in-memory entity resolver, chunked input source
//   * parser construction + configuration from a feature string
#pragma once
#include <xercesc/util/PlatformUtils.hpp>
#include <xercesc/util/XMLString.hpp>
#include <xercesc/util/XMLUni.hpp>
#include <xercesc/util/XMLUniDefs.hpp>
#include <xercesc/util/XMLException.hpp>
#include <xercesc/util/OutOfMemoryException.hpp>
#include <xercesc/util/BinInputStream.hpp>
#include <xercesc/util/SecurityManager.hpp>
#include <xercesc/util/XMLEntityResolver.hpp>
#include <xercesc/util/XMLResourceIdentifier.hpp>
#include <xercesc/sax/InputSource.hpp>
#include <xercesc/sax/SAXException.hpp>
#include <xercesc/sax/SAXParseException.hpp>
#include <xercesc/sax/DocumentHandler.hpp>
#include <xercesc/sax/DTDHandler.hpp>
#include <xercesc/sax/AttributeList.hpp>
#include <xercesc/sax/Locator.hpp>
#include <xercesc/sax/ErrorHandler.hpp>
#include <xercesc/sax2/Attributes.hpp>
#include <xercesc/sax2/ContentHandler.hpp>
#include <xercesc/sax2/LexicalHandler.hpp>
#include <xercesc/sax2/DeclHandler.hpp>
#include <xercesc/sax2/SAX2XMLReader.hpp>
#include <xercesc/parsers/SAXParser.hpp>
#include <xercesc/parsers/SAX2XMLReaderImpl.hpp>
#include <xercesc/parsers/XercesDOMParser.hpp>
#include <xercesc/parsers/DOMLSParserImpl.hpp>
#include <xercesc/framework/MemBufInputSource.hpp>
#include <xercesc/framework/LocalFileInputSource.hpp>
#include <xercesc/framework/URLInputSource.hpp>
#include <xercesc/framework/StdInInputSource.hpp>
#include <xercesc/framework/Wrapper4InputSource.hpp>
#include <xercesc/framework/XMLPScanToken.hpp>
#include <xercesc/framework/XMLGrammarPoolImpl.hpp>
#include <xercesc/framework/XMLErrorCodes.hpp>
#include <xercesc/framework/XMLValidityCodes.hpp>
#include <xercesc/dom/DOM.hpp>
#include <xercesc/dom/DOMLSParserFilter.hpp>
#include <xercesc/dom/impl/DOMErrorImpl.hpp>

#include <cstdio>
#include <cstdlib>
#include <cstring>
#include <string>
#include <map>
#include <vector>
#include <algorithm>
#include <functional>
#include <unistd.h>
#include <sys/stat.h>
#include <sys/wait.h>
#include <fcntl.h>

using namespace XERCES_CPP_NAMESPACE;

namespace xv {

typedef std::map<std::string, std::string> Req;

// ---------------------------------------------------------------------------------------------
// protocol:  request  = "REQ <n>\n" then n x ( "<key> <len>\n" <len bytes> "\n" )
//            response = "<len>\n" <len bytes>
// ---------------------------------------------------------------------------------------------
static int g_in = 0, g_out = 1;

static bool readLine(FILE* f, std::string& out) {
    out.clear();
    int c;
    while ((c = fgetc(f)) != EOF) { if (c == '\n') return true; out.push_back((char)c); }
    return !out.empty();
}
static bool readReq(FILE* f, Req& r) {
    r.clear();
    std::string line;
    if (!readLine(f, line)) return false;
    if (line.compare(0, 4, "REQ ") != 0) return false;
    int n = atoi(line.c_str() + 4);
    for (int i = 0; i < n; i++) {
        if (!readLine(f, line)) return false;
        size_t sp = line.rfind(' ');
        if (sp == std::string::npos) return false;
        std::string key = line.substr(0, sp);
        size_t len = (size_t)strtoull(line.c_str() + sp + 1, 0, 10);
        std::string val(len, '\0');
        if (len && fread(&val[0], 1, len, f) != len) return false;
        if (fgetc(f) != '\n') return false;
        r[key] = val;
    }
    return true;
}
static void writeResp(FILE* f, const std::string& s) {
    fprintf(f, "%zu\n", s.size());
    fwrite(s.data(), 1, s.size(), f);
    fflush(f);
}
static std::string get(const Req& r, const std::string& k, const std::string& d = "") {
    Req::const_iterator it = r.find(k);
    return it == r.end() ? d : it->second;
}
static long geti(const Req& r, const std::string& k, long d = 0) {
    Req::const_iterator it = r.find(k);
    return it == r.end() ? d : atol(it->second.c_str());
}

// ---------------------------------------------------------------------------------------------
// string helpers
// ---------------------------------------------------------------------------------------------
// Escape a UTF-16 string to printable ASCII: 0x21..0x7E except '\\' verbatim, space verbatim,
// everything else \uXXXX per UTF-16 code unit.
static void escTo(std::string& o, const XMLCh* s, XMLSize_t n) {
    static const char* hx = "0123456789ABCDEF";
    for (XMLSize_t i = 0; i < n; i++) {
        unsigned c = (unsigned)(unsigned short)s[i];
        if (c >= 0x20 && c <= 0x7E && c != '\\') o.push_back((char)c);
        else { o += "\\u"; o.push_back(hx[(c >> 12) & 15]); o.push_back(hx[(c >> 8) & 15]); o.push_back(hx[(c >> 4) & 15]); o.push_back(hx[c & 15]); }
    }
}
static void escTo(std::string& o, const XMLCh* s) { if (s) escTo(o, s, XMLString::stringLen(s)); }
static std::string esc(const XMLCh* s) { std::string o; escTo(o, s); return o; }
static std::string escN(const XMLCh* s) { return s ? esc(s) : std::string("\\N"); }   // null marker

// X("ascii or utf-8") -> XMLCh* (owned).  Accepts UTF-8.
struct X {
    std::vector<XMLCh> v;
    X(const std::string& s) { init(s); }
    X(const char* s) { init(std::string(s)); }
    void init(const std::string& s) {
        size_t i = 0;
        while (i < s.size()) {
            unsigned c = (unsigned char)s[i]; unsigned cp; int n;
            if (c < 0x80) { cp = c; n = 1; }
            else if ((c >> 5) == 6) { cp = c & 0x1F; n = 2; }
            else if ((c >> 4) == 14) { cp = c & 0x0F; n = 3; }
            else { cp = c & 0x07; n = 4; }
            for (int k = 1; k < n && i + k < s.size(); k++) cp = (cp << 6) | ((unsigned char)s[i + k] & 0x3F);
            i += n;
            if (cp >= 0x10000) { cp -= 0x10000; v.push_back((XMLCh)(0xD800 + (cp >> 10))); v.push_back((XMLCh)(0xDC00 + (cp & 0x3FF))); }
            else v.push_back((XMLCh)cp);
        }
        v.push_back(0);
    }
    operator const XMLCh*() const { return &v[0]; }
    const XMLCh* c() const { return &v[0]; }
};
// Decode the driver's escaped form (\uXXXX per UTF-16 unit, \\ for backslash) into UTF-16.
struct U {
    std::vector<XMLCh> v;
    U(const std::string& s) {
        for (size_t i = 0; i < s.size();) {
            if (s[i] == '\\' && i + 5 < s.size() + 0 && s[i + 1] == 'u') {
                v.push_back((XMLCh)strtoul(s.substr(i + 2, 4).c_str(), 0, 16)); i += 6;
            } else { v.push_back((XMLCh)(unsigned char)s[i]); i++; }
        }
        v.push_back(0);
    }
    operator const XMLCh*() const { return &v[0]; }
    const XMLCh* c() const { return &v[0]; }
    XMLSize_t len() const { return v.size() - 1; }
};

static std::vector<std::string> split(const std::string& s, char sep) {
    std::vector<std::string> out; std::string cur;
    for (size_t i = 0; i < s.size(); i++) { if (s[i] == sep) { out.push_back(cur); cur.clear(); } else cur.push_back(s[i]); }
    out.push_back(cur);
    return out;
}

// ---------------------------------------------------------------------------------------------
// feature set
// ---------------------------------------------------------------------------------------------
struct Feat {
    std::map<std::string, std::string> m;
    Feat() {}
    Feat(const std::string& s) {
        std::vector<std::string> parts = split(s, ';');
        for (size_t i = 0; i < parts.size(); i++) {
            size_t eq = parts[i].find('=');
            if (eq != std::string::npos) m[parts[i].substr(0, eq)] = parts[i].substr(eq + 1);
        }
    }
    bool has(const char* k) const { return m.count(k) != 0; }
    long i(const char* k, long d) const { std::map<std::string, std::string>::const_iterator it = m.find(k); return it == m.end() ? d : atol(it->second.c_str()); }
    bool b(const char* k, bool d) const { return i(k, d ? 1 : 0) != 0; }
    std::string s(const char* k, const char* d = "") const { std::map<std::string, std::string>::const_iterator it = m.find(k); return it == m.end() ? d : it->second; }
};

static const XMLCh* scannerName(const std::string& s) {
    if (s == "WF") return XMLUni::fgWFXMLScanner;
    if (s == "DG") return XMLUni::fgDGXMLScanner;
    if (s == "SG") return XMLUni::fgSGXMLScanner;
    return XMLUni::fgIGXMLScanner;
}

// ---------------------------------------------------------------------------------------------
// Dump: the CED accumulator (+ counters used by oracles)
// ---------------------------------------------------------------------------------------------
struct Dump {
    std::string out;
    std::string pendKind;          // "T" or "IW" pending coalesced text
    std::string pendText;
    const Locator* loc = 0;
    bool withLoc = false;
    long nEvents = 0, nChars = 0, nErr = 0, nFatal = 0, nWarn = 0;
    long throwAt = -1;             // throw from the k-th callback (C15/C18)
    void clearAll() { out.clear(); pendKind.clear(); pendText.clear(); nEvents = nChars = nErr = nFatal = nWarn = 0; }
    void tick() {
        nEvents++;
        if (throwAt >= 0 && nEvents == throwAt) throw SAXException(X("xv-handler-abort").c());
    }
    void flushText() {
        if (!pendKind.empty()) { out += pendKind; out += '\t'; out += pendText; out += '\n'; pendKind.clear(); pendText.clear(); }
    }
    void text(const char* kind, const XMLCh* s, XMLSize_t n) {
        if (pendKind != kind) flushText();
        pendKind = kind; escTo(pendText, s, n); nChars += (long)n;
    }
    void line(const std::string& l, bool locatable = false) {
        flushText();
        out += l;
        if (withLoc && locatable) { char b[64]; snprintf(b, sizeof b, "\t@%llu", (unsigned long long)(loc ? loc->getLineNumber() : 0)); out += b; }
        out += '\n';
    }
    void err(unsigned code, const XMLCh* domain, XMLErrorReporter::ErrTypes t, const XMLCh* sysId, XMLFileLoc l, XMLFileLoc c) {
        nErr++;
        const char* sev = t == XMLErrorReporter::ErrType_Warning ? "W" : t == XMLErrorReporter::ErrType_Error ? "E" : "F";
        if (t == XMLErrorReporter::ErrType_Fatal) nFatal++;
        if (t == XMLErrorReporter::ErrType_Warning) nWarn++;
        std::string d = "X";
        if (XMLString::equals(domain, XMLUni::fgXMLErrDomain)) d = "X";
        else if (XMLString::equals(domain, XMLUni::fgValidityDomain)) d = "V";
        else if (XMLString::equals(domain, XMLUni::fgExceptDomain)) d = "E";
        else d = "O";
        char b[160];
        // system id: basename only (temp dirs differ between runs)
        std::string sid = esc(sysId); size_t sl = sid.rfind('/'); if (sl != std::string::npos) sid = sid.substr(sl + 1);
        snprintf(b, sizeof b, "ERR\t%s\t%u\t%s\t%llu\t%llu\t", d.c_str(), code, sev, (unsigned long long)l, (unsigned long long)c);
        line(std::string(b) + sid);
    }
    std::string finish() { flushText(); return out; }
};

// ---------------------------------------------------------------------------------------------
// SAX2 handler
// ---------------------------------------------------------------------------------------------
struct AttrRow { std::string key, text; };
static bool attrLess(const AttrRow& a, const AttrRow& b) { return a.key < b.key; }

struct Sax2Dump : public ContentHandler, public LexicalHandler, public DeclHandler, public DTDHandler, public ErrorHandler {
    Dump& d;
    Sax2Dump(Dump& dd) : d(dd) {}
    // ContentHandler
    void characters(const XMLCh* const chars, const XMLSize_t length) { d.tick(); d.text("T", chars, length); }
    void ignorableWhitespace(const XMLCh* const chars, const XMLSize_t length) { d.tick(); d.text("IW", chars, length); }
    void startDocument() { d.tick(); d.line("SD"); }
    void endDocument() { d.tick(); d.line("ED"); }
    void startElement(const XMLCh* const uri, const XMLCh* const localname, const XMLCh* const qname, const Attributes& attrs) {
        d.tick();
        d.line("SE\t{" + esc(uri) + "}" + esc(localname) + "\t" + esc(qname), true);
        std::vector<AttrRow> rows;
        for (XMLSize_t i = 0; i < attrs.getLength(); i++) {
            AttrRow r;
            r.key = "{" + esc(attrs.getURI(i)) + "}" + esc(attrs.getLocalName(i)) + "\t" + esc(attrs.getQName(i));
            r.text = "A\t" + r.key + "\t" + esc(attrs.getType(i)) + "\t-\t" + esc(attrs.getValue(i));
            rows.push_back(r);
        }
        std::sort(rows.begin(), rows.end(), attrLess);
        for (size_t i = 0; i < rows.size(); i++) d.line(rows[i].text);
    }
    void endElement(const XMLCh* const uri, const XMLCh* const localname, const XMLCh* const qname) {
        d.tick(); d.line("EE\t{" + esc(uri) + "}" + esc(localname) + "\t" + esc(qname), true);
    }
    void processingInstruction(const XMLCh* const target, const XMLCh* const data) { d.tick(); d.line("PI\t" + esc(target) + "\t" + esc(data), true); }
    void setDocumentLocator(const Locator* const locator) { d.loc = locator; }
    void startPrefixMapping(const XMLCh* const prefix, const XMLCh* const uri) { d.tick(); d.line("SPM\t" + esc(prefix) + "\t" + esc(uri)); }
    void endPrefixMapping(const XMLCh* const prefix) { d.tick(); d.line("EPM\t" + esc(prefix)); }
    void skippedEntity(const XMLCh* const name) { d.tick(); d.line("SKE\t" + esc(name)); }
    // LexicalHandler
    void comment(const XMLCh* const chars, const XMLSize_t length) { d.tick(); std::string s; escTo(s, chars, length); d.line("C\t" + s, true); }
    void startCDATA() { d.tick(); d.line("CD["); }
    void endCDATA() { d.tick(); d.line("CD]"); }
    void startDTD(const XMLCh* const name, const XMLCh* const publicId, const XMLCh* const systemId) { d.tick(); d.line("DT\t" + esc(name) + "\t" + escN(publicId) + "\t" + escN(systemId)); }
    void endDTD() { d.tick(); d.line("DT]"); }
    void startEntity(const XMLCh* const name) { d.tick(); d.line("SER\t" + esc(name)); }
    void endEntity(const XMLCh* const name) { d.tick(); d.line("EER\t" + esc(name)); }
    // DeclHandler
    void elementDecl(const XMLCh* const name, const XMLCh* const model) { d.tick(); d.line("ELD\t" + esc(name) + "\t" + esc(model)); }
    void attributeDecl(const XMLCh* const eName, const XMLCh* const aName, const XMLCh* const type, const XMLCh* const mode, const XMLCh* const value) {
        d.tick(); d.line("ATD\t" + esc(eName) + "\t" + esc(aName) + "\t" + esc(type) + "\t" + escN(mode) + "\t" + escN(value));
    }
    void internalEntityDecl(const XMLCh* const name, const XMLCh* const value) { d.tick(); d.nChars += (long)XMLString::stringLen(value); d.line("IED\t" + esc(name) + "\t" + esc(value)); }
    void externalEntityDecl(const XMLCh* const name, const XMLCh* const publicId, const XMLCh* const systemId) { d.tick(); d.line("EED\t" + esc(name) + "\t" + escN(publicId) + "\t" + escN(systemId)); }
    // DTDHandler
    void notationDecl(const XMLCh* const name, const XMLCh* const publicId, const XMLCh* const systemId) { d.tick(); d.line("NOT\t" + esc(name) + "\t" + escN(publicId) + "\t" + escN(systemId)); }
    void unparsedEntityDecl(const XMLCh* const name, const XMLCh* const publicId, const XMLCh* const systemId, const XMLCh* const notationName) {
        d.tick(); d.line("UENT\t" + esc(name) + "\t" + escN(publicId) + "\t" + escN(systemId) + "\t" + esc(notationName));
    }
    void resetDocType() {}
    // ErrorHandler (positions are taken in the parser subclass; nothing to do here)
    void warning(const SAXParseException&) {}
    void error(const SAXParseException&) {}
    void fatalError(const SAXParseException&) {}
    void resetErrors() {}
};

// ---------------------------------------------------------------------------------------------
// SAX1 handler
// ---------------------------------------------------------------------------------------------
struct Sax1Dump : public DocumentHandler, public DTDHandler, public ErrorHandler {
    Dump& d;
    Sax1Dump(Dump& dd) : d(dd) {}
    void characters(const XMLCh* const chars, const XMLSize_t length) { d.tick(); d.text("T", chars, length); }
    void ignorableWhitespace(const XMLCh* const chars, const XMLSize_t length) { d.tick(); d.text("IW", chars, length); }
    void startDocument() { d.tick(); d.line("SD"); }
    void endDocument() { d.tick(); d.line("ED"); }
    void resetDocument() {}
    void setDocumentLocator(const Locator* const locator) { d.loc = locator; }
    void startElement(const XMLCh* const name, AttributeList& attrs) {
        d.tick();
        d.line("SE\t{}\t" + esc(name), true);
        std::vector<AttrRow> rows;
        for (XMLSize_t i = 0; i < attrs.getLength(); i++) {
            AttrRow r;
            r.key = "{}\t" + esc(attrs.getName(i));
            r.text = "A\t" + r.key + "\t" + esc(attrs.getType(i)) + "\t-\t" + esc(attrs.getValue(i));
            rows.push_back(r);
        }
        std::sort(rows.begin(), rows.end(), attrLess);
        for (size_t i = 0; i < rows.size(); i++) d.line(rows[i].text);
    }
    void endElement(const XMLCh* const name) { d.tick(); d.line("EE\t{}\t" + esc(name), true); }
    void processingInstruction(const XMLCh* const target, const XMLCh* const data) { d.tick(); d.line("PI\t" + esc(target) + "\t" + esc(data), true); }
    void notationDecl(const XMLCh* const name, const XMLCh* const publicId, const XMLCh* const systemId) { d.tick(); d.line("NOT\t" + esc(name) + "\t" + escN(publicId) + "\t" + escN(systemId)); }
    void unparsedEntityDecl(const XMLCh* const name, const XMLCh* const publicId, const XMLCh* const systemId, const XMLCh* const notationName) {
        d.tick(); d.line("UENT\t" + esc(name) + "\t" + escN(publicId) + "\t" + escN(systemId) + "\t" + esc(notationName));
    }
    void resetDocType() {}
    void warning(const SAXParseException&) {}
    void error(const SAXParseException&) {}
    void fatalError(const SAXParseException&) {}
    void resetErrors() {}
};

// ---------------------------------------------------------------------------------------------
// DOM dump
// ---------------------------------------------------------------------------------------------
static std::string domName(const DOMNode* n) {
    // "{ns}local\tqname"; ns "\N" when null (DOM level 1 node)
    const XMLCh* ns = n->getNamespaceURI(); const XMLCh* ln = n->getLocalName();
    std::string s = "{";
    s += ns ? esc(ns) : "";
    s += "}";
    s += ln ? esc(ln) : "";
    s += "\t"; s += esc(n->getNodeName());
    return s;
}
struct DomDumpOpts { bool typeInfo = false; bool ids = false; };
static void dumpDomNode(Dump& d, const DOMNode* n, const DomDumpOpts& o) {
    switch (n->getNodeType()) {
    case DOMNode::DOCUMENT_NODE: {
        d.line("SD");
        for (DOMNode* c = n->getFirstChild(); c; c = c->getNextSibling()) dumpDomNode(d, c, o);
        d.line("ED");
        break; }
    case DOMNode::DOCUMENT_FRAGMENT_NODE: {
        d.line("FRAG[");
        for (DOMNode* c = n->getFirstChild(); c; c = c->getNextSibling()) dumpDomNode(d, c, o);
        d.line("FRAG]");
        break; }
    case DOMNode::DOCUMENT_TYPE_NODE: {
        const DOMDocumentType* dt = (const DOMDocumentType*)n;
        d.line("DT\t" + esc(dt->getName()) + "\t" + escN(dt->getPublicId()) + "\t" + escN(dt->getSystemId()));
        std::vector<std::string> rows;
        DOMNamedNodeMap* ents = dt->getEntities();
        for (XMLSize_t i = 0; ents && i < ents->getLength(); i++) {
            DOMEntity* e = (DOMEntity*)ents->item(i);
            rows.push_back("ENT\t" + esc(e->getNodeName()) + "\t" + escN(e->getPublicId()) + "\t" + escN(e->getSystemId()) + "\t" + escN(e->getNotationName()));
        }
        DOMNamedNodeMap* nots = dt->getNotations();
        for (XMLSize_t i = 0; nots && i < nots->getLength(); i++) {
            DOMNotation* e = (DOMNotation*)nots->item(i);
            rows.push_back("NOT\t" + esc(e->getNodeName()) + "\t" + escN(e->getPublicId()) + "\t" + escN(e->getSystemId()));
        }
        std::sort(rows.begin(), rows.end());
        for (size_t i = 0; i < rows.size(); i++) d.line(rows[i]);
        d.line("DT]");
        break; }
    case DOMNode::ELEMENT_NODE: {
        const DOMElement* e = (const DOMElement*)n;
        std::string l = "SE\t" + domName(n);
        if (o.typeInfo) { const DOMTypeInfo* ti = e->getSchemaTypeInfo(); l += "\t%" ; if (ti) { l += "{" + esc(ti->getTypeNamespace()) + "}" + esc(ti->getTypeName()); } }
        d.line(l);
        DOMNamedNodeMap* at = n->getAttributes();
        std::vector<AttrRow> rows;
        for (XMLSize_t i = 0; at && i < at->getLength(); i++) {
            DOMAttr* a = (DOMAttr*)at->item(i);
            AttrRow r; r.key = domName(a);
            std::string ty = "-";
            if (o.typeInfo) { const DOMTypeInfo* ti = a->getSchemaTypeInfo(); ty = "%"; if (ti) ty += "{" + esc(ti->getTypeNamespace()) + "}" + esc(ti->getTypeName()); }
            r.text = "A\t" + r.key + "\t" + ty + "\t" + (a->getSpecified() ? "1" : "0") + (o.ids && a->isId() ? "I" : "") + "\t" + esc(a->getValue());
            rows.push_back(r);
        }
        std::sort(rows.begin(), rows.end(), attrLess);
        for (size_t i = 0; i < rows.size(); i++) d.line(rows[i].text);
        for (DOMNode* c = n->getFirstChild(); c; c = c->getNextSibling()) dumpDomNode(d, c, o);
        d.line("EE\t" + domName(n));
        break; }
    case DOMNode::TEXT_NODE: {
        const DOMText* t = (const DOMText*)n;
        const XMLCh* v = n->getNodeValue();
        d.text(t->isIgnorableWhitespace() ? "IW" : "T", v, XMLString::stringLen(v));
        break; }
    case DOMNode::CDATA_SECTION_NODE: {
        d.line("CD[");
        const XMLCh* v = n->getNodeValue();
        d.text("T", v, XMLString::stringLen(v));
        d.line("CD]");
        break; }
    case DOMNode::COMMENT_NODE: d.line("C\t" + esc(n->getNodeValue())); break;
    case DOMNode::PROCESSING_INSTRUCTION_NODE: d.line("PI\t" + esc(n->getNodeName()) + "\t" + esc(n->getNodeValue())); break;
    case DOMNode::ENTITY_REFERENCE_NODE: {
        d.line("SER\t" + esc(n->getNodeName()));
        for (DOMNode* c = n->getFirstChild(); c; c = c->getNextSibling()) dumpDomNode(d, c, o);
        d.line("EER\t" + esc(n->getNodeName()));
        break; }
    case DOMNode::ATTRIBUTE_NODE: {
        d.line("ATTR\t" + domName(n) + "\t" + esc(n->getNodeValue()));
        break; }
    default: { char b[32]; snprintf(b, sizeof b, "NODE\t%d", (int)n->getNodeType()); d.line(b); }
    }
}

// namespace lookup dump (C06): for every element (document order) and its attribute / text children the answers of
// lookupNamespaceURI(p), lookupPrefix(u), isDefaultNamespace(u) for the given prefixes ("-" = null) and URIs
static void dumpNsQueries(Dump& d, const DOMNode* n, const std::vector<std::string>& ps, const std::vector<std::string>& us, long& idx) {
    if (n->getNodeType() == DOMNode::ELEMENT_NODE) {
        std::vector<const DOMNode*> subj; subj.push_back(n);
        DOMNamedNodeMap* at = n->getAttributes();
        if (at && at->getLength()) subj.push_back(at->item(0));
        for (DOMNode* c = n->getFirstChild(); c; c = c->getNextSibling()) if (c->getNodeType() == DOMNode::TEXT_NODE) { subj.push_back(c); break; }
        for (size_t k = 0; k < subj.size(); k++) {
            std::string l = "NSQ\t" + std::to_string(idx) + "\t" + (k == 0 ? "E" : subj[k]->getNodeType() == DOMNode::ATTRIBUTE_NODE ? "A" : "T");
            for (size_t i = 0; i < ps.size(); i++) { const XMLCh* r = ps[i] == "-" ? subj[k]->lookupNamespaceURI(0) : subj[k]->lookupNamespaceURI(X(ps[i]).c()); l += "\t" + escN(r); }
            for (size_t i = 0; i < us.size(); i++) { const XMLCh* r = subj[k]->lookupPrefix(X(us[i]).c()); l += "\t" + escN(r); }
            for (size_t i = 0; i < us.size(); i++) { l += subj[k]->isDefaultNamespace(X(us[i]).c()) ? "\t1" : "\t0"; }
            d.line(l);
        }
        idx++;
    }
    for (DOMNode* c = n->getFirstChild(); c; c = c->getNextSibling()) dumpNsQueries(d, c, ps, us, idx);
}

// ---------------------------------------------------------------------------------------------
// In-memory entity resolution.  Keys of the map are system identifiers as written in the
// document ("ent:<sysid>" request fields) -- looked up first literally, then after resolving
// against the base URI (simple relative join), so both flat and nested layouts work.
// ---------------------------------------------------------------------------------------------
struct EntStore {
    std::map<std::string, std::string> ents;     // sysid (UTF-8/ASCII) -> bytes
    std::vector<std::string> log;                // "R\t<sysid>\t<base>" per resolver call
    bool nullForUnknown = true;                  // true: unknown ids fall through to default resolution
    bool total = false;                          // true (fuzz targets): every id is answered from memory (by extension, else "*", else empty)
    std::map<std::string, std::string> byExt;    // ".dtd" / ".xsd" / "*" -> bytes
    std::string empty;
    void load(const Req& r) {
        for (Req::const_iterator it = r.begin(); it != r.end(); ++it)
            if (it->first.compare(0, 4, "ent:") == 0) ents[it->first.substr(4)] = it->second;
    }
    const std::string* find(const std::string& sys, const std::string& base) {
        std::map<std::string, std::string>::iterator it = ents.find(sys);
        if (it != ents.end()) return &it->second;
        // join with base directory
        size_t sl = base.rfind('/');
        if (sl != std::string::npos) {
            std::string j = base.substr(0, sl + 1) + sys;
            it = ents.find(j);
            if (it != ents.end()) return &it->second;
        }
        if (total) {
            size_t dot = sys.rfind('.');
            if (dot != std::string::npos) { it = byExt.find(sys.substr(dot)); if (it != byExt.end()) return &it->second; }
            it = byExt.find("*"); if (it != byExt.end()) return &it->second;
            return &empty;
        }
        return 0;
    }
};
static std::string narrow(const XMLCh* s) { std::string o; for (; s && *s; s++) { if (*s < 0x80) o.push_back((char)*s); else { char b[8]; snprintf(b, sizeof b, "\\u%04X", (unsigned)(unsigned short)*s); o += b; } } return o; }

struct MemResolver : public XMLEntityResolver {
    EntStore& st;
    MemResolver(EntStore& s) : st(s) {}
    InputSource* resolveEntity(XMLResourceIdentifier* ri) {
        std::string sys = narrow(ri->getSystemId()), base = narrow(ri->getBaseURI());
        st.log.push_back("R\t" + sys + "\t" + base);
        if (sys.empty() && ri->getSchemaLocation()) sys = narrow(ri->getSchemaLocation());
        const std::string* b = st.find(sys, base);
        if (!b) return 0;
        // system id for the new entity: joined form so nested relative ids keep working
        std::string full = sys;
        if (st.ents.find(sys) == st.ents.end()) { size_t sl = base.rfind('/'); if (sl != std::string::npos) full = base.substr(0, sl + 1) + sys; }
        MemBufInputSource* is = new MemBufInputSource((const XMLByte*)b->data(), b->size(), X(full).c(), false);
        return is;
    }
};
struct MemLSResolver : public DOMLSResourceResolver {
    EntStore& st;
    MemLSResolver(EntStore& s) : st(s) {}
    DOMLSInput* resolveResource(const XMLCh* const, const XMLCh* const, const XMLCh* const, const XMLCh* const systemId, const XMLCh* const baseURI) {
        std::string sys = narrow(systemId), base = narrow(baseURI);
        st.log.push_back("R\t" + sys + "\t" + base);
        const std::string* b = st.find(sys, base);
        if (!b) return 0;
        std::string full = sys;
        if (st.ents.find(sys) == st.ents.end()) { size_t sl = base.rfind('/'); if (sl != std::string::npos) full = base.substr(0, sl + 1) + sys; }
        MemBufInputSource* is = new MemBufInputSource((const XMLByte*)b->data(), b->size(), X(full).c(), false);
        return new Wrapper4InputSource(is, true);
    }
};

// ---------------------------------------------------------------------------------------------
// Chunked input: a BinInputStream that hands out bytes according to a read plan
// ---------------------------------------------------------------------------------------------
struct ChunkStream : public BinInputStream {
    const std::string& data; std::vector<size_t> plan; size_t pos = 0, k = 0; long* reads; size_t first;
    ChunkStream(const std::string& d, const std::vector<size_t>& p, long* r, size_t f = 0) : data(d), plan(p), reads(r), first(f) {}
    XMLFilePos curPos() const { return pos; }
    XMLSize_t readBytes(XMLByte* const toFill, const XMLSize_t maxToRead) {
        size_t want = maxToRead;
        if (first && pos == 0 && !plan.empty()) { if (first < want) want = first; }
        else if (!plan.empty()) { size_t c = plan[k % plan.size()]; k++; if (c && c < want) want = c; }
        if (want > data.size() - pos) want = data.size() - pos;
        if (want) memcpy(toFill, data.data() + pos, want);
        pos += want; if (reads) (*reads)++;
        return want;
    }
    const XMLCh* getContentType() const { return 0; }
};
struct ChunkSource : public InputSource {
    const std::string& data; std::vector<size_t> plan; long reads = 0; size_t first = 0;
    ChunkSource(const std::string& d, const std::vector<size_t>& p, const XMLCh* sysId) : InputSource(sysId), data(d), plan(p) {}
    BinInputStream* makeStream() const { return new ChunkStream(data, plan, const_cast<long*>(&reads), first); }
};
static std::vector<size_t> parsePlan(const std::string& s) {
    std::vector<size_t> p; if (s.empty()) return p;
    std::vector<std::string> parts = split(s, ',');
    for (size_t i = 0; i < parts.size(); i++) p.push_back((size_t)strtoull(parts[i].c_str(), 0, 10));
    return p;
}

// ---------------------------------------------------------------------------------------------
// Parser subclasses capturing error codes
// ---------------------------------------------------------------------------------------------
#define XV_ERRCAP(NAME, BASE) \
struct NAME : public BASE { \
    Dump* xd = 0; \
    using BASE::BASE; \
    virtual void error(const unsigned int code, const XMLCh* const dom, const XMLErrorReporter::ErrTypes t, const XMLCh* const txt, \
                       const XMLCh* const sys, const XMLCh* const pub, const XMLFileLoc l, const XMLFileLoc c) { \
        if (xd) xd->err(code, dom, t, sys, l, c); \
        BASE::error(code, dom, t, txt, sys, pub, l, c); \
    } \
};
XV_ERRCAP(CapSAXParser, SAXParser)
XV_ERRCAP(CapSAX2, SAX2XMLReaderImpl)
XV_ERRCAP(CapDOMParser, XercesDOMParser)
XV_ERRCAP(CapDOMLS, DOMLSParserImpl)

struct NameFilter : public DOMLSParserFilter {
    std::map<std::string, int> act;   // name -> FilterAction
    int defAct = DOMLSParserFilter::FILTER_ACCEPT;
    bool atStart = false;             // decide in startElement (true) or acceptNode (false)
    FilterAction lookup(DOMNode* n) {
        std::map<std::string, int>::iterator it = act.find(esc(n->getNodeName()));
        return (FilterAction)(it == act.end() ? defAct : it->second);
    }
    FilterAction acceptNode(DOMNode* node) { if (atStart && node->getNodeType() == DOMNode::ELEMENT_NODE) return FILTER_ACCEPT; return lookup(node); }
    FilterAction startElement(DOMElement* node) { return atStart ? lookup(node) : FILTER_ACCEPT; }
    DOMNodeFilter::ShowType getWhatToShow() const { return DOMNodeFilter::SHOW_ALL; }
};

// ---------------------------------------------------------------------------------------------
// configuration
// ---------------------------------------------------------------------------------------------
template <class P> static void configClassic(P& p, const Feat& f, SecurityManager* sm) {
    // SAXParser and XercesDOMParser share these setters
    if (f.has("scanner")) p.useScanner(scannerName(f.s("scanner")));
    p.setDoNamespaces(f.b("ns", false));
    long v = f.i("val", 0);
    p.setValidationScheme(v == 1 ? P::Val_Always : v == 2 ? P::Val_Auto : P::Val_Never);
    p.setDoSchema(f.b("schema", false));
    p.setValidationSchemaFullChecking(f.b("fullcheck", false));
    p.setIdentityConstraintChecking(f.b("ic", true));
    p.setLoadExternalDTD(f.b("loaddtd", true));
    p.setLoadSchema(f.b("loadschema", true));
    p.setExitOnFirstFatalError(f.b("exitfatal", true));
    p.setValidationConstraintFatal(f.b("valfatal", false));
    p.setDisableDefaultEntityResolution(f.b("dde", false));
    p.setCalculateSrcOfs(f.b("calcsrc", false));
    p.setStandardUriConformant(f.b("stduri", false));
    p.setSkipDTDValidation(f.b("skipdtdval", false));
    p.setHandleMultipleImports(f.b("multiimp", false));
    p.setDisallowDoctype(f.b("nodoctype", false));
    p.setIgnoreCachedDTD(f.b("ignorecacheddtd", false));
    p.setLowWaterMark((XMLSize_t)f.i("lowwater", 100));
    p.cacheGrammarFromParse(f.b("cachegrammar", false));
    p.useCachedGrammarInParse(f.b("usecached", false));
    if (f.has("extschema")) p.setExternalSchemaLocation(f.s("extschema").c_str());
    if (f.has("extnons")) p.setExternalNoNamespaceSchemaLocation(f.s("extnons").c_str());
    if (sm) p.setSecurityManager(sm);
}
static void configDOM(XercesDOMParser& p, const Feat& f, SecurityManager* sm) {
    configClassic(p, f, sm);
    p.setCreateEntityReferenceNodes(f.b("ere", true));
    p.setIncludeIgnorableWhitespace(f.b("iw", true));
    p.setCreateCommentNodes(f.b("comments", true));
    p.setCreateSchemaInfo(f.b("psvi", false));
    p.setDoXInclude(f.b("xinclude", false));
}
static void configSAX2(SAX2XMLReader& p, const Feat& f, SecurityManager* sm) {
    if (f.has("scanner")) p.setProperty(XMLUni::fgXercesScannerName, (void*)scannerName(f.s("scanner")));
    p.setFeature(XMLUni::fgSAX2CoreNameSpaces, f.b("ns", true));
    p.setFeature(XMLUni::fgSAX2CoreNameSpacePrefixes, f.b("nsp", false));
    long v = f.i("val", 0);
    p.setFeature(XMLUni::fgSAX2CoreValidation, v != 0);
    p.setFeature(XMLUni::fgXercesDynamic, v == 2);
    p.setFeature(XMLUni::fgXercesSchema, f.b("schema", false));
    p.setFeature(XMLUni::fgXercesSchemaFullChecking, f.b("fullcheck", false));
    p.setFeature(XMLUni::fgXercesIdentityConstraintChecking, f.b("ic", true));
    p.setFeature(XMLUni::fgXercesLoadExternalDTD, f.b("loaddtd", true));
    p.setFeature(XMLUni::fgXercesLoadSchema, f.b("loadschema", true));
    p.setFeature(XMLUni::fgXercesContinueAfterFatalError, !f.b("exitfatal", true));
    p.setFeature(XMLUni::fgXercesValidationErrorAsFatal, f.b("valfatal", false));
    p.setFeature(XMLUni::fgXercesDisableDefaultEntityResolution, f.b("dde", false));
    p.setFeature(XMLUni::fgXercesCalculateSrcOfs, f.b("calcsrc", false));
    p.setFeature(XMLUni::fgXercesStandardUriConformant, f.b("stduri", false));
    p.setFeature(XMLUni::fgXercesSkipDTDValidation, f.b("skipdtdval", false));
    p.setFeature(XMLUni::fgXercesHandleMultipleImports, f.b("multiimp", false));
    p.setFeature(XMLUni::fgXercesIgnoreCachedDTD, f.b("ignorecacheddtd", false));
    p.setFeature(XMLUni::fgXercesDisallowDoctype, f.b("nodoctype", false));
    { XMLSize_t lw = (XMLSize_t)f.i("lowwater", 100); p.setProperty(XMLUni::fgXercesLowWaterMark, &lw); }
    p.setFeature(XMLUni::fgXercesCacheGrammarFromParse, f.b("cachegrammar", false));
    p.setFeature(XMLUni::fgXercesUseCachedGrammarInParse, f.b("usecached", false));
    if (f.has("extschema")) { X s(f.s("extschema")); p.setProperty(XMLUni::fgXercesSchemaExternalSchemaLocation, (void*)s.c()); }
    if (f.has("extnons")) { X s(f.s("extnons")); p.setProperty(XMLUni::fgXercesSchemaExternalNoNameSpaceSchemaLocation, (void*)s.c()); }
    if (sm) p.setProperty(XMLUni::fgXercesSecurityManager, sm);
}
static void setLS(DOMConfiguration* c, const XMLCh* name, bool v) { if (c->canSetParameter(name, v)) c->setParameter(name, v); }
static void configDOMLS(DOMLSParserImpl& p, const Feat& f, SecurityManager* sm) {
    DOMConfiguration* c = p.getDomConfig();
    if (f.has("scanner")) c->setParameter(XMLUni::fgXercesScannerName, (const void*)scannerName(f.s("scanner")));
    setLS(c, XMLUni::fgDOMNamespaces, f.b("ns", true));
    long v = f.i("val", 0);
    setLS(c, XMLUni::fgDOMValidate, v == 1);
    setLS(c, XMLUni::fgDOMValidateIfSchema, v == 2);
    setLS(c, XMLUni::fgXercesSchema, f.b("schema", false));
    setLS(c, XMLUni::fgXercesSchemaFullChecking, f.b("fullcheck", false));
    setLS(c, XMLUni::fgXercesIdentityConstraintChecking, f.b("ic", true));
    setLS(c, XMLUni::fgXercesLoadExternalDTD, f.b("loaddtd", true));
    setLS(c, XMLUni::fgXercesLoadSchema, f.b("loadschema", true));
    setLS(c, XMLUni::fgXercesContinueAfterFatalError, !f.b("exitfatal", true));
    setLS(c, XMLUni::fgXercesValidationErrorAsFatal, f.b("valfatal", false));
    setLS(c, XMLUni::fgXercesDisableDefaultEntityResolution, f.b("dde", false));
    setLS(c, XMLUni::fgXercesCalculateSrcOfs, f.b("calcsrc", false));
    setLS(c, XMLUni::fgXercesStandardUriConformant, f.b("stduri", false));
    setLS(c, XMLUni::fgXercesSkipDTDValidation, f.b("skipdtdval", false));
    setLS(c, XMLUni::fgXercesHandleMultipleImports, f.b("multiimp", false));
    setLS(c, XMLUni::fgXercesIgnoreCachedDTD, f.b("ignorecacheddtd", false));
    setLS(c, XMLUni::fgDOMEntities, f.b("ere", true));
    setLS(c, XMLUni::fgDOMElementContentWhitespace, f.b("iw", true));
    setLS(c, XMLUni::fgDOMComments, f.b("comments", true));
    setLS(c, XMLUni::fgXercesDOMHasPSVIInfo, f.b("psvi", false));
    setLS(c, XMLUni::fgXercesDoXInclude, f.b("xinclude", false));
    setLS(c, XMLUni::fgXercesCacheGrammarFromParse, f.b("cachegrammar", false));
    setLS(c, XMLUni::fgXercesUseCachedGrammarInParse, f.b("usecached", false));
    { XMLSize_t lw = (XMLSize_t)f.i("lowwater", 100); c->setParameter(XMLUni::fgXercesLowWaterMark, (const void*)&lw); }
    if (c->canSetParameter(XMLUni::fgXercesDisallowDoctype, f.b("nodoctype", false))) c->setParameter(XMLUni::fgXercesDisallowDoctype, f.b("nodoctype", false));
    if (f.has("extschema")) { X s(f.s("extschema")); c->setParameter(XMLUni::fgXercesSchemaExternalSchemaLocation, (const void*)s.c()); }
    if (f.has("extnons")) { X s(f.s("extnons")); c->setParameter(XMLUni::fgXercesSchemaExternalNoNameSpaceSchemaLocation, (const void*)s.c()); }
    if (sm) c->setParameter(XMLUni::fgXercesSecurityManager, (const void*)sm);
}

// A do-nothing DOMErrorHandler returning true (continue), so DOMLS parse() behaves like the others.
struct LSErr : public DOMErrorHandler { bool handleError(const DOMError&) { return true; } };

// ---------------------------------------------------------------------------------------------
// describe an escaping exception
// ---------------------------------------------------------------------------------------------
#define XV_CATCH_ALL(D) \
    catch (const OutOfMemoryException&) { (D).line("EXC\tOutOfMemoryException"); } \
    catch (const XMLException& e) { (D).line(std::string("EXC\tXMLException\t") + esc(e.getType()) + "\t" + std::to_string((int)e.getCode())); } \
    catch (const SAXParseException& e) { (D).line(std::string("EXC\tSAXParseException\t") + esc(e.getMessage())); } \
    catch (const SAXException& e) { (D).line(std::string("EXC\tSAXException\t") + esc(e.getMessage())); } \
    catch (const DOMLSException& e) { (D).line(std::string("EXC\tDOMLSException\t") + std::to_string((int)e.code)); } \
    catch (const DOMException& e) { (D).line(std::string("EXC\tDOMException\t") + std::to_string((int)e.code)); } \
    catch (...) { (D).line("EXC\tFOREIGN"); }

// ---------------------------------------------------------------------------------------------
// runParse: one parse described by a request; returns the CED.
//   fields: api, feat, doc, sysid, chunks, loc, throwat, filter, ent:<id>
// ---------------------------------------------------------------------------------------------
// per-process scratch directory for file/URL input sources (removed by the driver's TMPDIR cleanup / at exit)
static std::string& scratchDir() {
    static std::string d;
    if (d.empty()) {
        const char* t = getenv("TMPDIR"); std::string base = t && *t ? t : "/tmp";
        char b[256]; snprintf(b, sizeof b, "%s/verif.xv.%d", base.c_str(), (int)getpid());
        mkdir(b, 0700); d = b;
    }
    return d;
}
static std::string writeScratch(const std::string& name, const std::string& data) {
    std::string p = scratchDir() + "/" + name;
    FILE* f = fopen(p.c_str(), "wb"); if (f) { if (!data.empty()) fwrite(data.data(), 1, data.size(), f); fclose(f); }
    return p;
}

struct ParseOut { std::string ced; long nEvents = 0, nChars = 0, nErr = 0, nFatal = 0; long reads = 0; long parserErrCount = -1; std::vector<std::string> rlog; };

static void runParse(const Req& r, ParseOut& po, XMLGrammarPool* pool = 0, MemoryManager* mm = XMLPlatformUtils::fgMemoryManager) {
    std::string api = get(r, "api", "sax2");
    Feat f(get(r, "feat"));
    const std::string& doc = r.find("doc")->second;
    std::string sysid = get(r, "sysid", "mem:/doc.xml");
    std::vector<size_t> plan = parsePlan(get(r, "chunks"));
    Dump d; d.withLoc = geti(r, "loc", 0) != 0; d.throwAt = geti(r, "throwat", -1);
    EntStore st; st.load(r);
    if (geti(r, "totalres", 0)) { st.total = true; for (Req::const_iterator it = r.begin(); it != r.end(); ++it) if (it->first.compare(0, 4, "ext:") == 0) st.byExt[it->first.substr(4)] = it->second; }
    MemResolver res(st);
    SecurityManager sm; long lim = f.i("secmgr", -1); if (lim >= 0) sm.setEntityExpansionLimit((XMLSize_t)lim);
    SecurityManager* smp = lim >= 0 ? &sm : 0;
    X sysx(sysid);
    ChunkSource csrc(doc, plan, sysx.c()); csrc.first = (size_t)geti(r, "chunk1", 0);
    // source type: custom (application-defined InputSource, default) | mem | file | url | stdin
    std::string srcKind = get(r, "src", "custom");
    InputSource* srcOwned = 0;
    if (srcKind == "mem") srcOwned = new MemBufInputSource((const XMLByte*)doc.data(), doc.size(), sysx.c(), false);
    else if (srcKind == "file") { std::string p = writeScratch("doc.xml", doc); srcOwned = new LocalFileInputSource(X(p).c()); }
    else if (srcKind == "url") { std::string p = writeScratch("doc.xml", doc); srcOwned = new URLInputSource(XMLURL(X("file://" + p).c())); }
    else if (srcKind == "stdin") srcOwned = new StdInInputSource();
    InputSource& src = srcOwned ? *srcOwned : (InputSource&)csrc;
    struct SrcJan { InputSource* p; ~SrcJan() { delete p; } } srcJan = { srcOwned };
    if (f.has("forceenc")) src.setEncoding(X(f.s("forceenc")).c());
    bool useRes = !st.ents.empty() || st.total || f.b("resolver", false);
    // optional warm-up: the SAME parser object first parses `pre` (result discarded), so that state left over from an earlier document shows in this one
    const std::string preDoc = get(r, "pre");
    MemBufInputSource presrc((const XMLByte*)preDoc.data(), preDoc.size(), "mem:/pre.xml", false);
#define XV_PRE(CALL) if (r.count("pre")) { long keep = d.throwAt; d.throwAt = -1; try { CALL; } catch (...) {} d.clearAll(); d.throwAt = keep; }
    long steps = geti(r, "steps", -1);   // progressive: abandon after this many parseNext calls (-1: run to end)
    try {
        if (api == "sax1" || api == "psax1") {
            CapSAXParser p(0, mm, pool); p.xd = &d; configClassic(p, f, smp);
            Sax1Dump h(d); p.setDocumentHandler(&h); p.setDTDHandler(&h); p.setErrorHandler(&h);
            if (useRes) p.setXMLEntityResolver(&res);
            XV_PRE(p.parse(presrc))
            if (api == "sax1") p.parse(src);
            else { XMLPScanToken tok; if (p.parseFirst(src, tok)) { long k = 0; while ((steps < 0 || k < steps) && p.parseNext(tok)) k++; if (steps >= 0) p.parseReset(tok); } }
            po.parserErrCount = (long)p.getErrorCount();
        } else if (api == "sax2" || api == "psax2") {
            CapSAX2 p(mm, pool); p.xd = &d; configSAX2(p, f, smp);
            Sax2Dump h(d); p.setContentHandler(&h); p.setLexicalHandler(&h); p.setDeclarationHandler(&h); p.setDTDHandler(&h); p.setErrorHandler(&h);
            if (useRes) p.setXMLEntityResolver(&res);
            XV_PRE(p.parse(presrc))
            if (api == "sax2") p.parse(src);
            else { XMLPScanToken tok; if (p.parseFirst(src, tok)) { long k = 0; while ((steps < 0 || k < steps) && p.parseNext(tok)) k++; if (steps >= 0) p.parseReset(tok); } }
            po.parserErrCount = (long)p.getErrorCount();
        } else if (api == "dom" || api == "pdom") {
            CapDOMParser p(0, mm, pool); p.xd = &d; configDOM(p, f, smp);
            Sax1Dump eh(d); p.setErrorHandler(&eh);
            if (useRes) p.setXMLEntityResolver(&res);
            bool done = true;
            XV_PRE(p.parse(presrc))
            if (api == "dom") p.parse(src);
            else { XMLPScanToken tok; if (p.parseFirst(src, tok)) { long k = 0; while ((steps < 0 || k < steps) && p.parseNext(tok)) k++; if (steps >= 0) { p.parseReset(tok); done = false; } } }
            po.parserErrCount = (long)p.getErrorCount();
            DOMDocument* dd = p.getDocument();
            DomDumpOpts o; o.typeInfo = f.b("psvi", false); o.ids = f.b("dumpids", false);
            if (dd && done) dumpDomNode(d, dd, o);
            if (dd && done && r.count("nsq_p")) { long idx = 0; dumpNsQueries(d, dd, split(get(r, "nsq_p"), ','), split(get(r, "nsq_u"), ','), idx); }
        } else if (api == "domls" || api == "domlsf") {
            CapDOMLS p(0, mm, pool); p.xd = &d; configDOMLS(p, f, smp);
            LSErr eh; p.getDomConfig()->setParameter(XMLUni::fgDOMErrorHandler, &eh);
            MemLSResolver lres(st);
            if (useRes) p.getDomConfig()->setParameter(XMLUni::fgDOMResourceResolver, &lres);
            NameFilter nf;
            if (api == "domlsf") {
                std::vector<std::string> parts = split(get(r, "filter"), ',');
                for (size_t i = 0; i < parts.size(); i++) { size_t c = parts[i].rfind(':'); if (c != std::string::npos) nf.act[parts[i].substr(0, c)] = atoi(parts[i].c_str() + c + 1); }
                nf.atStart = geti(r, "filterstart", 0) != 0;
                p.setFilter(&nf);
            }
            XV_PRE({ Wrapper4InputSource pin(&presrc, false); p.parse(&pin); })
            Wrapper4InputSource in(&src, false);
            DOMDocument* dd = p.parse(&in);
            DomDumpOpts o; o.typeInfo = f.b("psvi", false); o.ids = f.b("dumpids", false);
            if (dd) dumpDomNode(d, dd, o);
            if (dd && r.count("nsq_p")) { long idx = 0; dumpNsQueries(d, dd, split(get(r, "nsq_p"), ','), split(get(r, "nsq_u"), ','), idx); }
        } else {
            d.line("EXC\tBADAPI");
        }
    }
    XV_CATCH_ALL(d)
    po.ced = d.finish();
    po.nEvents = d.nEvents; po.nChars = d.nChars; po.nErr = d.nErr; po.nFatal = d.nFatal; po.reads = csrc.reads; po.rlog = st.log;
}

// main loop helper: handlers register by "kind"
typedef std::function<std::string(const Req&)> Handler;
static int serve(std::map<std::string, Handler>& hs) {
    // stdout is the protocol channel; keep stray prints away from it
    int proto = dup(1); dup2(2, 1);
    FILE* out = fdopen(proto, "w");
    Req r;
    while (readReq(stdin, r)) {
        std::string kind = get(r, "kind", "parse");
        std::map<std::string, Handler>::iterator it = hs.find(kind);
        if (it == hs.end()) { writeResp(out, "EXC\tBADKIND\n"); continue; }
        writeResp(out, it->second(r));
    }
    { std::string& d = scratchDir(); unlink((d + "/doc.xml").c_str()); unlink((d + "/stdin.xml").c_str()); rmdir(d.c_str()); }
    return 0;
}

} // namespace xv
