// xvlife (C18 lifecycle lane): balanced nestings of XMLPlatformUtils::Initialize / Terminate with an optional custom global MemoryManager.
// stdin: one op per line:  init <custom 0|1> <locale|-> | term | work     (a fresh process per case)
// stdout: ROUND <n> <digest>, LEDGER lines after each outermost Terminate, VIOL lines.  LeakSanitizer checks the default-manager side at exit.
#include "xvcommon.hpp"
#include <xercesc/util/regx/RegularExpression.hpp>
#include <xercesc/util/TransService.hpp>
#include <unordered_map>
#include <iostream>
using namespace xv;

struct GLedger : public MemoryManager {
    std::unordered_map<void*, size_t> live; long allocs = 0, frees = 0, bad = 0;
    MemoryManager* getExceptionMemoryManager() { return this; }
    void* allocate(XMLSize_t size) { void* p = malloc(size ? size : 1); if (!p) throw OutOfMemoryException(); live[p] = size; allocs++; return p; }
    void deallocate(void* p) { if (!p) return; std::unordered_map<void*, size_t>::iterator it = live.find(p); if (it == live.end()) { bad++; return; } live.erase(it); frees++; free(p); }
};

static unsigned long long fnv(const std::string& s, unsigned long long h = 1469598103934665603ULL) { for (size_t i = 0; i < s.size(); i++) { h ^= (unsigned char)s[i]; h *= 1099511628211ULL; } return h; }

static std::string workload() {
    std::string acc;
    {   // parse with DTD validation (SAX2) and schema validation (DOM), errors included
        Req r; r["api"] = "sax2"; r["feat"] = "ns=1;val=1;scanner=IG";
        r["doc"] = "<!DOCTYPE r [<!ELEMENT r (a*)><!ELEMENT a (#PCDATA)><!ATTLIST a id ID #IMPLIED k CDATA \"d\"><!ENTITY e \"one\">]><r><a id=\"x\">t&e;</a><a id=\"x\"/><b/></r>";
        ParseOut po; runParse(r, po); acc += po.ced;
        Req q; q["api"] = "dom"; q["feat"] = "ns=1;val=1;schema=1;scanner=IG";
        q["doc"] = "<r xmlns:xsi=\"http://www.w3.org/2001/XMLSchema-instance\" xsi:noNamespaceSchemaLocation=\"s.xsd\"><a>ab1</a><a>zz</a></r>";
        q["ent:s.xsd"] = "<xs:schema xmlns:xs=\"http://www.w3.org/2001/XMLSchema\"><xs:element name=\"r\"><xs:complexType><xs:sequence><xs:element name=\"a\" type=\"T\" maxOccurs=\"unbounded\"/></xs:sequence></xs:complexType></xs:element>"
                         "<xs:simpleType name=\"T\"><xs:restriction base=\"xs:string\"><xs:pattern value=\"[a-c]{1,2}\\p{Nd}\"/></xs:restriction></xs:simpleType></xs:schema>";
        ParseOut pq; runParse(q, pq); acc += pq.ced;
    }
    {   // regular expression with categories, transcoding both ways, exception message loading
        try { RegularExpression re(X("\\p{L}+\\d*").c(), X("X").c()); acc += re.matches(X("abc12").c()) ? "m1" : "m0"; acc += re.matches(X("1a").c()) ? "m1" : "m0"; } catch (const XMLException& e) { acc += esc(e.getMessage()); }
        char* n = XMLString::transcode(X("h\xc3\xa9llo").c()); acc += n ? n : "(null)"; XMLString::release(&n);
        XMLCh* w = XMLString::transcode("plain ascii"); acc += esc(w); XMLString::release(&w);
        XMLTransService::Codes rc; XMLTranscoder* t = XMLPlatformUtils::fgTransService->makeNewTranscoderFor("ISO-8859-1", rc, 1024);
        if (t) { XMLByte out[32]; XMLSize_t eaten = 0; XMLSize_t nb = t->transcodeTo(X("a\xc3\xa9").c(), 2, out, 32, eaten, XMLTranscoder::UnRep_RepChar); acc += std::string((char*)out, nb); delete t; }
        try { RegularExpression bad(X("(a").c()); } catch (const XMLException& e) { acc += esc(e.getMessage()); }
    }
    return acc;
}

int main() {
    GLedger* gl = 0; int depth = 0; long round = 0; std::string line; long viol = 0;
    bool customActive = false;
    while (std::getline(std::cin, line)) {
        std::vector<std::string> op = split(line, ' ');
        if (op[0] == "init") {
            bool custom = op.size() > 1 && op[1] == "1"; std::string loc = op.size() > 2 && op[2] != "-" ? op[2] : "en_US";
            if (depth == 0) { if (custom) { gl = new GLedger(); customActive = true; } else customActive = false; }
            XMLPlatformUtils::Initialize(loc.c_str(), 0, 0, (depth == 0 && custom) ? gl : 0);
            depth++;
        } else if (op[0] == "term") {
            if (depth == 0) { printf("VIOL\tunbalanced script\n"); continue; }
            XMLPlatformUtils::Terminate(); depth--;
            if (depth == 0 && customActive && gl) {
                printf("LEDGER\tG\t%ld\t%ld\t%zu\t%ld\n", gl->allocs, gl->frees, gl->live.size(), gl->bad);
                if (!gl->live.empty() || gl->bad) viol++;
                for (std::unordered_map<void*, size_t>::iterator it = gl->live.begin(); it != gl->live.end(); ++it) free(it->first);
                delete gl; gl = 0; customActive = false;
            }
        } else if (op[0] == "work") {
            if (depth == 0) { printf("VIOL\twork outside Initialize\n"); continue; }
            std::string w = workload(); round++;
            printf("ROUND\t%ld\t%016llx\n", round, fnv(w));
        }
    }
    fflush(stdout);
    return viol ? 3 : 0;
}
