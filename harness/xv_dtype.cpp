// xv_dtype.cpp -- executor for property C09 (XML Schema datatypes).
//   kind=xsv    : batched XSValue::validate / getCanonicalRepresentation / getActualValue
//   kind=dtv    : DatatypeValidatorFactory built-in + derived validators: validate / compare / canonical / wsFacet
//   kind=parse  : plain runParse (in-parse validation lane; schema served through "ent:" fields)
// All strings travel in the driver's escaped form (\uXXXX per UTF-16 unit, see xv.esc / xvcommon U).
#include "xvcommon.hpp"
#include <xercesc/framework/psvi/XSValue.hpp>
#include <xercesc/validators/datatype/DatatypeValidatorFactory.hpp>
#include <xercesc/validators/datatype/DatatypeValidator.hpp>
#include <xercesc/validators/datatype/InvalidDatatypeValueException.hpp>
#include <xercesc/validators/datatype/InvalidDatatypeFacetException.hpp>
#include <xercesc/validators/schema/SchemaSymbols.hpp>
#include <xercesc/internal/ValidationContextImpl.hpp>
#include <xercesc/util/KVStringPair.hpp>
#include <xercesc/util/RefHashTableOf.hpp>
#include <xercesc/util/RefArrayVectorOf.hpp>
#include <xercesc/util/RefVectorOf.hpp>
#include <cinttypes>
#include <memory>

using namespace xv;

static const char* stName(XSValue::Status s) {
    switch (s) {
    case XSValue::st_Init: return "Init";
    case XSValue::st_NoContent: return "NoContent";
    case XSValue::st_NoCanRep: return "NoCanRep";
    case XSValue::st_NoActVal: return "NoActVal";
    case XSValue::st_NotSupported: return "NotSupported";
    case XSValue::st_CantCreateRegEx: return "CantCreateRegEx";
    case XSValue::st_FOCA0002: return "FOCA0002";
    case XSValue::st_FOCA0001: return "FOCA0001";
    case XSValue::st_FOCA0003: return "FOCA0003";
    case XSValue::st_FODT0003: return "FODT0003";
    case XSValue::st_UnknownType: return "UnknownType";
    }
    return "?";
}

static std::string hexBytes(const XMLByte* p, size_t n) {
    static const char* hx = "0123456789ABCDEF";
    std::string o;
    for (size_t i = 0; i < n; i++) { o.push_back(hx[p[i] >> 4]); o.push_back(hx[p[i] & 15]); }
    return o;
}

static std::string dumpActual(const XSValue* v, XSValue::DataType dt, long alen) {
    char b[256];
    const XSValue::XSValue_Data& d = v->fData;
    switch (dt) {
    case XSValue::dt_boolean: return d.fValue.f_bool ? "b:1" : "b:0";
    case XSValue::dt_decimal: snprintf(b, sizeof b, "d:%.17g", d.fValue.f_decimal.f_dvalue); return b;
    case XSValue::dt_float: {
        uint32_t bits; float f = d.fValue.f_floatType.f_float; memcpy(&bits, &f, 4);
        snprintf(b, sizeof b, "f:%d:%08X", (int)d.fValue.f_floatType.f_floatEnum, bits); return b; }
    case XSValue::dt_double: {
        uint64_t bits; double f = d.fValue.f_doubleType.f_double; memcpy(&bits, &f, 8);
        snprintf(b, sizeof b, "D:%d:%016" PRIX64, (int)d.fValue.f_doubleType.f_doubleEnum, bits); return b; }
    case XSValue::dt_integer: case XSValue::dt_nonPositiveInteger: case XSValue::dt_negativeInteger: case XSValue::dt_long:
        snprintf(b, sizeof b, "i:%" PRId64, (int64_t)d.fValue.f_long); return b;
    case XSValue::dt_nonNegativeInteger: case XSValue::dt_positiveInteger: case XSValue::dt_unsignedLong:
        snprintf(b, sizeof b, "i:%" PRIu64, (uint64_t)d.fValue.f_ulong); return b;
    case XSValue::dt_int: snprintf(b, sizeof b, "i:%d", (int)d.fValue.f_int); return b;
    case XSValue::dt_short: snprintf(b, sizeof b, "i:%d", (int)d.fValue.f_short); return b;
    case XSValue::dt_byte: snprintf(b, sizeof b, "i:%d", (int)d.fValue.f_char); return b;
    case XSValue::dt_unsignedInt: snprintf(b, sizeof b, "i:%u", (unsigned)d.fValue.f_uint); return b;
    case XSValue::dt_unsignedShort: snprintf(b, sizeof b, "i:%u", (unsigned)d.fValue.f_ushort); return b;
    case XSValue::dt_unsignedByte: snprintf(b, sizeof b, "i:%u", (unsigned)d.fValue.f_uchar); return b;
    case XSValue::dt_duration: case XSValue::dt_dateTime: case XSValue::dt_time: case XSValue::dt_date:
    case XSValue::dt_gYearMonth: case XSValue::dt_gYear: case XSValue::dt_gMonthDay: case XSValue::dt_gDay: case XSValue::dt_gMonth:
        snprintf(b, sizeof b, "t:%d,%d,%d,%d,%d,%d,%.17g", d.fValue.f_datetime.f_year, d.fValue.f_datetime.f_month, d.fValue.f_datetime.f_day,
                 d.fValue.f_datetime.f_hour, d.fValue.f_datetime.f_min, d.fValue.f_datetime.f_second, d.fValue.f_datetime.f_milisec);
        return b;
    case XSValue::dt_hexBinary: case XSValue::dt_base64Binary:
        if (alen < 0) return "x:?";
        return "x:" + hexBytes(d.fValue.f_byteVal, (size_t)alen);
    default: return "?";
    }
}

// items: one per line "typeName \t escaped-literal [\t alen]"
static std::string doXsv(const Req& r) {
    std::string out;
    std::vector<std::string> lines = split(get(r, "items"), '\n');
    for (size_t i = 0; i < lines.size(); i++) {
        if (lines[i].empty()) continue;
        std::vector<std::string> f = split(lines[i], '\t');
        if (f.size() < 2) { out += "BADITEM\n"; continue; }
        X tn(f[0]); U lit(f[1]);
        long alen = f.size() > 2 ? atol(f[2].c_str()) : -1;
        XSValue::DataType dt = XSValue::getDataType(tn.c());
        if (dt == XSValue::dt_MAXCOUNT) { out += "UNKNOWNTYPE\n"; continue; }
        try {
            XSValue::Status s1 = XSValue::st_Init, s2 = XSValue::st_Init, s3 = XSValue::st_Init;
            bool ok = XSValue::validate(lit.c(), dt, s1);
            out += ok ? "v=1:" : "v=0:"; out += stName(s1);
            XMLCh* can = XSValue::getCanonicalRepresentation(lit.c(), dt, s2);
            out += "\tc="; out += stName(s2); out += ":"; out += escN(can);
            if (can) XMLPlatformUtils::fgMemoryManager->deallocate(can);
            XSValue* av = XSValue::getActualValue(lit.c(), dt, s3);
            out += "\ta="; out += stName(s3); out += ":";
            if (av) { out += dumpActual(av, dt, alen); delete av; } else out += "\\N";
            out += "\n";
        }
        catch (const OutOfMemoryException&) { out += "EXC\tOutOfMemoryException\n"; }
        catch (const XMLException& e) { out += "EXC\tXMLException\t" + esc(e.getType()) + "\n"; }
        catch (...) { out += "EXC\tFOREIGN\n"; }
    }
    return out;
}

// ---------------------------------------------------------------------------------------------
// dtv
//   types: lines  "<name> \t R \t <base> { \t f:<facet>=<escaped value> | \t e:<escaped value> }"
//                 "<name> \t L \t <item>"
//                 "<name> \t U \t <member> { \t <member> }"
//   ops:   lines  "v \t <type> \t <lit>"            -> "ok" | "inv \t <exception type> \t <code>"
//                 "c \t <type> \t <lit1> \t <lit2>"  -> "<int>" | "exc ..."
//                 "k \t <type> \t <lit> \t <0|1>"    -> "can \t <escaped|\N>" | "exc ..."
//                 "w \t <type>"                      -> "ws \t <0|1|2>"
// ---------------------------------------------------------------------------------------------
static const XMLCh* facetKey(const std::string& n) {
    if (n == "length") return SchemaSymbols::fgELT_LENGTH;
    if (n == "minLength") return SchemaSymbols::fgELT_MINLENGTH;
    if (n == "maxLength") return SchemaSymbols::fgELT_MAXLENGTH;
    if (n == "pattern") return SchemaSymbols::fgELT_PATTERN;
    if (n == "maxInclusive") return SchemaSymbols::fgELT_MAXINCLUSIVE;
    if (n == "maxExclusive") return SchemaSymbols::fgELT_MAXEXCLUSIVE;
    if (n == "minInclusive") return SchemaSymbols::fgELT_MININCLUSIVE;
    if (n == "minExclusive") return SchemaSymbols::fgELT_MINEXCLUSIVE;
    if (n == "totalDigits") return SchemaSymbols::fgELT_TOTALDIGITS;
    if (n == "fractionDigits") return SchemaSymbols::fgELT_FRACTIONDIGITS;
    if (n == "whiteSpace") return SchemaSymbols::fgELT_WHITESPACE;
    return 0;
}

static std::string excLine(const char* tag, const XMLException& e) {
    return std::string(tag) + "\t" + esc(e.getType()) + "\t" + std::to_string((int)e.getCode()) + "\n";
}

static std::string doDtv(const Req& r) {
    std::string out;
    MemoryManager* mm = XMLPlatformUtils::fgMemoryManager;
    std::vector<std::unique_ptr<X> > keep;                 // type-name storage must outlive the factory registry
    {
        DatatypeValidatorFactory fac(mm);
        std::map<std::string, DatatypeValidator*> types;
        std::map<std::string, std::string> typeErr;
        auto lookup = [&](const std::string& n) -> DatatypeValidator* {
            std::map<std::string, DatatypeValidator*>::iterator it = types.find(n);
            if (it != types.end()) return it->second;
            if (typeErr.count(n)) return 0;
            X xn(n);
            return fac.getDatatypeValidator(xn.c());
        };
        std::vector<std::string> tl = split(get(r, "types"), '\n');
        for (size_t i = 0; i < tl.size(); i++) {
            if (tl[i].empty()) continue;
            std::vector<std::string> f = split(tl[i], '\t');
            if (f.size() < 3) { out += "BADTYPE\n"; continue; }
            const std::string& name = f[0];
            keep.push_back(std::unique_ptr<X>(new X("xv," + name)));
            const XMLCh* tname = keep.back()->c();
            try {
                DatatypeValidator* dv = 0;
                if (f[1] == "R" || f[1] == "L") {
                    DatatypeValidator* base = lookup(f[2]);
                    if (!base) { typeErr[name] = "nobase"; out += "T\t" + name + "\tnobase\n"; continue; }
                    RefHashTableOf<KVStringPair>* facets = 0;
                    RefArrayVectorOf<XMLCh>* enums = 0;
                    for (size_t k = 3; k < f.size(); k++) {
                        if (f[k].compare(0, 2, "f:") == 0) {
                            size_t eq = f[k].find('=');
                            const XMLCh* key = facetKey(f[k].substr(2, eq - 2));
                            if (!key) { out += "BADFACET\n"; continue; }
                            U val(f[k].substr(eq + 1));
                            if (!facets) facets = new (mm) RefHashTableOf<KVStringPair>(29, true, mm);
                            facets->put((void*)key, new (mm) KVStringPair(key, val.c(), mm));
                        } else if (f[k].compare(0, 2, "e:") == 0) {
                            U val(f[k].substr(2));
                            if (!enums) enums = new (mm) RefArrayVectorOf<XMLCh>(8, true, mm);
                            enums->addElement(XMLString::replicate(val.c(), mm));
                        }
                    }
                    // like TraverseSchema: a list is created first without facets; facets on a list come by restriction
                    dv = fac.createDatatypeValidator(tname, base, facets, enums, f[1] == "L", 0, true, mm);
                } else if (f[1] == "U") {
                    RefVectorOf<DatatypeValidator>* members = new (mm) RefVectorOf<DatatypeValidator>(4, false, mm);
                    bool bad = false;
                    for (size_t k = 2; k < f.size(); k++) { DatatypeValidator* m = lookup(f[k]); if (!m) bad = true; else members->addElement(m); }
                    if (bad) { delete members; typeErr[name] = "nomember"; out += "T\t" + name + "\tnomember\n"; continue; }
                    dv = fac.createDatatypeValidator(tname, members, 0, true, mm);
                }
                if (dv) { types[name] = dv; out += "T\t" + name + "\tok\n"; }
                else { typeErr[name] = "null"; out += "T\t" + name + "\tnull\n"; }
            }
            catch (const OutOfMemoryException&) { typeErr[name] = "oom"; out += "T\t" + name + "\toom\n"; }
            catch (const XMLException& e) { typeErr[name] = "exc"; out += "T\t" + name + "\texc\t" + esc(e.getType()) + "\t" + std::to_string((int)e.getCode()) + "\n"; }
            catch (...) { typeErr[name] = "foreign"; out += "T\t" + name + "\tforeign\n"; }
        }
        std::vector<std::string> ol = split(get(r, "ops"), '\n');
        for (size_t i = 0; i < ol.size(); i++) {
            if (ol[i].empty()) continue;
            std::vector<std::string> f = split(ol[i], '\t');
            if (f.size() < 2) { out += "BADOP\n"; continue; }
            DatatypeValidator* dv = lookup(f[1]);
            if (!dv) { out += "notype\n"; continue; }
            try {
                if (f[0] == "v" && f.size() >= 3) {
                    U lit(f[2]);
                    ValidationContextImpl ctx(mm);
                    dv->validate(lit.c(), &ctx, mm);
                    out += "ok\n";
                } else if (f[0] == "c" && f.size() >= 4) {
                    U a(f[2]), b(f[3]);
                    int c = dv->compare(a.c(), b.c(), mm);
                    out += std::to_string(c) + "\n";
                } else if (f[0] == "k" && f.size() >= 4) {
                    U lit(f[2]);
                    const XMLCh* can = dv->getCanonicalRepresentation(lit.c(), mm, f[3] == "1");
                    out += "can\t" + escN(can) + "\n";
                    if (can) mm->deallocate((void*)can);
                } else if (f[0] == "w") {
                    out += "ws\t" + std::to_string((int)dv->getWSFacet()) + "\n";
                } else out += "BADOP\n";
            }
            catch (const OutOfMemoryException&) { out += "exc\tOutOfMemoryException\n"; }
            catch (const XMLException& e) { out += excLine(f[0] == "v" ? "inv" : "exc", e); }
            catch (...) { out += "exc\tFOREIGN\n"; }
        }
    }
    return out;
}

static std::string doParse(const Req& r) {
    ParseOut po;
    runParse(r, po);
    return po.ced;
}

int main() {
    XMLPlatformUtils::Initialize();
    std::map<std::string, Handler> hs;
    hs["xsv"] = doXsv;
    hs["dtv"] = doDtv;
    hs["parse"] = doParse;
    int rc = serve(hs);
    XMLPlatformUtils::Terminate();
    return rc;
}
