// xv_dom: executor for C13 (DOM mutation vs reference DOM) and C14 (live views under mutation).
//
// One request (kind=dom) = one whole history:
//   ndocs      1..3 documents; document 0 is parsed from `doc0` when that field is present (namespaces on, entity
//              reference nodes on, no validation), every other document is DOMImplementation::createDocument().
//   ops        one operation per line, tab separated: <name> <arg>...   node/view operands are table ids
//              (N<k> / V<k> written as plain integers), '-' = null pointer, strings in the xv.esc form, "\N" = null string.
//   full       "1": append the full structural dump to every step; otherwise only its CRC32 + length.
//   views      "1": append the state of all live views (C14) to every step.
// Response:
//   INIT\t<inv>\t<crc>\t<len>   followed by the full dump of the initial state (lines starting with a digit)
//   S\t<i>\t<outcome>\t<inv>\t<crc>\t<len>[\t<viewcrc>]   per operation (then dump / view lines when requested)
//   outcome: ok | ok:n<id> | ok:s<esc> | ok:i<int> | ok:- | exc:<code> | bad:<why>
//   inv: '-' or the first violated structural invariant.
//
// The table of live nodes: every node gets an id when it is first seen.  After every operation the harness
// (1) registers the returned node (and its subtree), (2) walks every live *root* in id order in a canonical
// pre-order (attributes in (ns, local|name, qname) order before children) and registers what is new.  The
// Python model does exactly the same, so ids agree as long as the structures agree.
#include "xvcommon.hpp"
#include <xercesc/dom/DOMRangeException.hpp>
#include <set>
#include <string>
using namespace xv;

namespace {

typedef std::basic_string<XMLCh> U16;
static U16 u16(const XMLCh* s) { return s ? U16(s) : U16(); }

static unsigned crcTab[256];
static void crcInit() { for (unsigned i = 0; i < 256; i++) { unsigned c = i; for (int k = 0; k < 8; k++) c = (c & 1) ? 0xEDB88320u ^ (c >> 1) : c >> 1; crcTab[i] = c; } }
static unsigned crc32(const std::string& s) { unsigned c = 0xFFFFFFFFu; for (size_t i = 0; i < s.size(); i++) c = crcTab[(c ^ (unsigned char)s[i]) & 0xFF] ^ (c >> 8); return c ^ 0xFFFFFFFFu; }

// strings coming from the driver: "\N" = null
struct S {
    bool isNull; U u;
    S(const std::string& s) : isNull(s == "\\N"), u(s == "\\N" ? std::string() : s) {}
    const XMLCh* c() const { return isNull ? 0 : u.c(); }
};

struct NameFilterT : public DOMNodeFilter {
    std::map<std::string, int> act; int def = 1;
    NameFilterT(const std::string& spec) {
        // "<default>;<escname>=<action>;..."   action: 1 accept 2 reject 3 skip
        std::vector<std::string> p = split(spec, ';');
        def = atoi(p[0].c_str());
        for (size_t i = 1; i < p.size(); i++) { size_t e = p[i].rfind('='); if (e != std::string::npos) act[p[i].substr(0, e)] = atoi(p[i].c_str() + e + 1); }
    }
    FilterAction acceptNode(const DOMNode* n) const {
        std::map<std::string, int>::const_iterator it = act.find(esc(n->getNodeName()));
        return (FilterAction)(it == act.end() ? def : it->second);
    }
};

struct View { char kind; void* p; bool dead; DOMDocument* doc; };   // kind: I iterator, W walker, L list, R range

struct World {
    std::vector<DOMDocument*> docs;
    std::vector<XercesDOMParser*> parsers;
    std::vector<DOMNode*> nodes; std::vector<char> dead;
    std::map<const DOMNode*, int> idOf;
    std::vector<View> views;
    std::vector<NameFilterT*> filters;
    std::string inv;     // first invariant violation of the current step

    int id(const DOMNode* n) const { if (!n) return -1; std::map<const DOMNode*, int>::const_iterator it = idOf.find(n); return it == idOf.end() ? -2 : it->second; }
    std::string ids(const DOMNode* n) const { if (!n) return "-"; int i = id(n); if (i < 0) return "?"; return std::to_string(i); }
    void reg(DOMNode* n) { if (idOf.count(n)) return; idOf[n] = (int)nodes.size(); nodes.push_back(n); dead.push_back(0); }
    void kill(DOMNode* n) { std::map<const DOMNode*, int>::iterator it = idOf.find(n); if (it == idOf.end()) return; dead[it->second] = 1; idOf.erase(it); }
    DOMNode* node(const std::string& a) { if (a == "-") return 0; int i = atoi(a.c_str()); if (i < 0 || i >= (int)nodes.size() || dead[i]) throw std::string("bad:id ") + a; return nodes[i]; }
    View& view(const std::string& a, char kind) { int i = atoi(a.c_str()); if (i < 0 || i >= (int)views.size() || views[i].kind != kind || views[i].dead) throw std::string("bad:view ") + a; return views[i]; }
    void fail(const std::string& m) { if (inv.empty()) inv = m; }
};

struct AttrKey { U16 ns, ln, qn; DOMAttr* a; };
static bool attrKeyLess(const AttrKey& x, const AttrKey& y) { if (x.ns != y.ns) return x.ns < y.ns; if (x.ln != y.ln) return x.ln < y.ln; return x.qn < y.qn; }
static std::vector<DOMAttr*> sortedAttrs(const DOMNode* e) {
    std::vector<AttrKey> ks; DOMNamedNodeMap* m = e->getAttributes();
    XMLSize_t n = m ? m->getLength() : 0;
    for (XMLSize_t i = 0; i < n && i < 10000; i++) {
        DOMAttr* a = (DOMAttr*)m->item(i); if (!a) break;
        AttrKey k; k.ns = u16(a->getNamespaceURI()); k.ln = a->getLocalName() ? u16(a->getLocalName()) : u16(a->getNodeName()); k.qn = u16(a->getNodeName()); k.a = a; ks.push_back(k);
    }
    std::stable_sort(ks.begin(), ks.end(), attrKeyLess);
    std::vector<DOMAttr*> out; for (size_t i = 0; i < ks.size(); i++) out.push_back(ks[i].a);
    return out;
}
struct NamedKey { U16 nm; DOMNode* n; };
static bool namedLess(const NamedKey& x, const NamedKey& y) { return x.nm < y.nm; }
static std::vector<DOMNode*> sortedMap(DOMNamedNodeMap* m) {
    std::vector<NamedKey> ks; XMLSize_t n = m ? m->getLength() : 0;
    for (XMLSize_t i = 0; i < n && i < 10000; i++) { DOMNode* x = m->item(i); if (!x) break; NamedKey k; k.nm = u16(x->getNodeName()); k.n = x; ks.push_back(k); }
    std::stable_sort(ks.begin(), ks.end(), namedLess);
    std::vector<DOMNode*> out; for (size_t i = 0; i < ks.size(); i++) out.push_back(ks[i].n);
    return out;
}

// canonical pre-order; `f(node, depth)` is called for every node; guards against cyclic structures
struct Walk {
    World& w; std::function<void(DOMNode*, int)> f; long budget;
    Walk(World& ww, std::function<void(DOMNode*, int)> ff) : w(ww), f(ff), budget(200000) {}
    void go(DOMNode* n, int depth) {
        if (--budget < 0 || depth > 400) { w.fail("walk: structure too deep or cyclic"); return; }
        f(n, depth);
        short t = n->getNodeType();
        if (t == DOMNode::ATTRIBUTE_NODE) return;          // attribute children are not part of the live set
        if (t == DOMNode::ELEMENT_NODE) { std::vector<DOMAttr*> as = sortedAttrs(n); for (size_t i = 0; i < as.size(); i++) go(as[i], depth + 1); }
        if (t == DOMNode::DOCUMENT_TYPE_NODE) {
            DOMDocumentType* dt = (DOMDocumentType*)n;
            std::vector<DOMNode*> es = sortedMap(dt->getEntities()); for (size_t i = 0; i < es.size(); i++) go(es[i], depth + 1);
            std::vector<DOMNode*> ns = sortedMap(dt->getNotations()); for (size_t i = 0; i < ns.size(); i++) go(ns[i], depth + 1);
        }
        long k = 0;
        for (DOMNode* c = n->getFirstChild(); c; c = c->getNextSibling()) { if (++k > 20000) { w.fail("walk: sibling list does not end"); break; } go(c, depth + 1); if (budget < 0) break; }
    }
};

static bool isRoot(DOMNode* n) {
    if (n->getNodeType() == DOMNode::ATTRIBUTE_NODE) return ((DOMAttr*)n)->getOwnerElement() == 0;
    if (n->getNodeType() == DOMNode::ENTITY_NODE || n->getNodeType() == DOMNode::NOTATION_NODE) return false;   // reached through their doctype
    return n->getParentNode() == 0;
}

static void discover(World& w, DOMNode* ret) {
    Walk reg(w, [&w](DOMNode* n, int) { w.reg(n); });
    if (ret && w.id(ret) == -2) reg.go(ret, 0);
    size_t n0 = w.nodes.size();
    for (size_t i = 0; i < n0; i++) if (!w.dead[i] && isRoot(w.nodes[i])) reg.go(w.nodes[i], 0);
}

static std::string sN(const XMLCh* s) { return escN(s); }

static void dumpLine(World& w, std::string& o, DOMNode* n, int depth) {
    o += std::to_string(depth); o += '\t'; o += w.ids(n); o += '\t';
    switch (n->getNodeType()) {
    case DOMNode::DOCUMENT_NODE: { DOMDocument* d = (DOMDocument*)n; o += "DOC\t" + w.ids(d->getDocumentElement()) + "\t" + w.ids(d->getDoctype()); break; }
    case DOMNode::DOCUMENT_TYPE_NODE: { DOMDocumentType* d = (DOMDocumentType*)n; o += "DT\t" + sN(d->getName()); break; }
    case DOMNode::ENTITY_NODE: { DOMEntity* e = (DOMEntity*)n; o += "ENT\t" + sN(e->getNodeName()) + "\t" + sN(e->getPublicId()) + "\t" + sN(e->getSystemId()) + "\t" + sN(e->getNotationName()); break; }
    case DOMNode::NOTATION_NODE: { DOMNotation* e = (DOMNotation*)n; o += "NOT\t" + sN(e->getNodeName()) + "\t" + sN(e->getPublicId()) + "\t" + sN(e->getSystemId()); break; }
    case DOMNode::ELEMENT_NODE: o += "EL\t" + sN(n->getNodeName()) + "\t" + sN(n->getNamespaceURI()) + "\t" + sN(n->getLocalName()) + "\t" + sN(n->getPrefix()); break;
    case DOMNode::ATTRIBUTE_NODE: { DOMAttr* a = (DOMAttr*)n;
        o += "AT\t" + sN(n->getNodeName()) + "\t" + sN(n->getNamespaceURI()) + "\t" + sN(n->getLocalName()) + "\t" + sN(n->getPrefix()) + "\t" + (a->getOwnerElement() ? (a->getSpecified() ? "1" : "0") : "-") + "\t" + sN(a->getValue()); break; }
    case DOMNode::TEXT_NODE: o += "TX\t" + sN(n->getNodeValue()); break;
    case DOMNode::CDATA_SECTION_NODE: o += "CD\t" + sN(n->getNodeValue()); break;
    case DOMNode::COMMENT_NODE: o += "CM\t" + sN(n->getNodeValue()); break;
    case DOMNode::PROCESSING_INSTRUCTION_NODE: o += "PI\t" + sN(n->getNodeName()) + "\t" + sN(n->getNodeValue()); break;
    case DOMNode::ENTITY_REFERENCE_NODE: o += "ER\t" + sN(n->getNodeName()); break;
    case DOMNode::DOCUMENT_FRAGMENT_NODE: o += "FR"; break;
    default: o += "??";
    }
    o += '\n';
}
static std::string dumpAll(World& w) {
    std::string o;
    Walk d(w, [&w, &o](DOMNode* n, int depth) { dumpLine(w, o, n, depth); });
    for (size_t i = 0; i < w.nodes.size(); i++) if (!w.dead[i] && isRoot(w.nodes[i])) d.go(w.nodes[i], 0);
    return o;
}

// ------------------------------------------------------------------------------------------------------
// structural invariants through the public getters
// ------------------------------------------------------------------------------------------------------
static DOMDocument* docOf(DOMNode* n) { return n->getNodeType() == DOMNode::DOCUMENT_NODE ? (DOMDocument*)n : n->getOwnerDocument(); }

static void checkInvariants(World& w) {
    size_t N = w.nodes.size();
    for (size_t i = 0; i < N; i++) {
        if (w.dead[i]) continue;
        DOMNode* n = w.nodes[i]; short t = n->getNodeType(); std::string me = "N" + std::to_string(i);
        // ownerDocument
        if (t == DOMNode::DOCUMENT_NODE) { if (n->getOwnerDocument() != 0) w.fail(me + ": Document.ownerDocument != null"); }
        else if (n->getOwnerDocument() == 0 && t != DOMNode::DOCUMENT_TYPE_NODE) w.fail(me + ": ownerDocument is null");
        // parent chain: live, acyclic
        DOMNode* p = n->getParentNode();
        if (t == DOMNode::ATTRIBUTE_NODE || t == DOMNode::DOCUMENT_NODE || t == DOMNode::DOCUMENT_FRAGMENT_NODE || t == DOMNode::ENTITY_NODE || t == DOMNode::NOTATION_NODE) {
            if (p) w.fail(me + ": node of a type that never has a parent has parentNode " + w.ids(p));
        }
        if (p) {
            if (w.id(p) < 0) w.fail(me + ": parentNode is not a live registered node");
            else {
                long steps = 0; DOMNode* a = p;
                while (a && steps <= (long)N + 5) { if (a == n) { w.fail(me + ": node is its own ancestor"); break; } a = a->getParentNode(); steps++; }
                if (steps > (long)N + 5) w.fail(me + ": parent chain does not end");
                if (docOf(p) != docOf(n)) w.fail(me + ": ownerDocument differs from the parent's");
                // appears exactly once among the parent's children
                int cnt = 0; long k = 0; for (DOMNode* c = p->getFirstChild(); c && k < 20001; c = c->getNextSibling(), k++) if (c == n) cnt++;
                if (cnt != 1) w.fail(me + ": occurs " + std::to_string(cnt) + " times in the child list of its parentNode " + w.ids(p));
            }
        } else {
            if (t != DOMNode::ATTRIBUTE_NODE && (n->getNextSibling() || n->getPreviousSibling())) w.fail(me + ": parentless node has a sibling");
        }
        // child list consistency
        if (t != DOMNode::ATTRIBUTE_NODE) {
            DOMNode* prev = 0; long cnt = 0; DOMNodeList* cl = n->getChildNodes();
            for (DOMNode* c = n->getFirstChild(); c; c = c->getNextSibling()) {
                if (cnt > 20000) { w.fail(me + ": sibling list does not end"); break; }
                if (w.id(c) < 0) w.fail(me + ": child " + std::to_string(cnt) + " is not a live registered node");
                if (c->getParentNode() != n) w.fail(me + ": child " + w.ids(c) + " has parentNode " + w.ids(c->getParentNode()));
                if (c->getPreviousSibling() != prev) w.fail(me + ": child " + w.ids(c) + " previousSibling is " + w.ids(c->getPreviousSibling()) + " expected " + w.ids(prev));
                if (cl && cl->item((XMLSize_t)cnt) != c) w.fail(me + ": childNodes.item(" + std::to_string(cnt) + ") != child reached by nextSibling");
                prev = c; cnt++;
            }
            if (n->getLastChild() != prev) w.fail(me + ": lastChild is " + w.ids(n->getLastChild()) + " expected " + w.ids(prev));
            if (n->hasChildNodes() != (cnt > 0)) w.fail(me + ": hasChildNodes inconsistent");
            if (cl) { if ((long)cl->getLength() != cnt) w.fail(me + ": childNodes.length " + std::to_string((long)cl->getLength()) + " != " + std::to_string(cnt)); if (cl->item((XMLSize_t)cnt) != 0) w.fail(me + ": childNodes.item(length) != null"); }
        }
        // attributes
        if (t == DOMNode::ELEMENT_NODE) {
            DOMElement* e = (DOMElement*)n; DOMNamedNodeMap* m = e->getAttributes();
            XMLSize_t len = m ? m->getLength() : 0;
            if (e->hasAttributes() != (len > 0)) w.fail(me + ": hasAttributes inconsistent");
            for (XMLSize_t k = 0; k < len; k++) {
                DOMAttr* a = (DOMAttr*)m->item(k);
                if (!a) { w.fail(me + ": attributes.item(" + std::to_string((long)k) + ") is null"); break; }
                if (a->getNodeType() != DOMNode::ATTRIBUTE_NODE) { w.fail(me + ": attribute map holds a non-attribute"); break; }
                if (w.id(a) < 0) w.fail(me + ": attribute " + esc(a->getNodeName()) + " is not a live registered node");
                if (a->getOwnerElement() != e) w.fail(me + ": attribute " + w.ids(a) + " (" + esc(a->getNodeName()) + ") in the map has ownerElement " + w.ids(a->getOwnerElement()));
                if (a->getParentNode() != 0) w.fail(me + ": attribute has a parentNode");
                if (docOf(a) != docOf(e)) w.fail(me + ": attribute ownerDocument differs from the element's");
                // (lookups by name: the map may legitimately hold a DOM Level 1 and a namespace-aware attribute of the same
                //  nodeName, or two namespace-aware ones of the same expanded name put there through the Level 1 methods;
                //  so only "a lookup by the node's own key finds a node with that key" is required)
                if (a->getLocalName()) {
                    DOMNode* f = m->getNamedItemNS(a->getNamespaceURI(), a->getLocalName());
                    if (!f || !XMLString::equals(f->getLocalName(), a->getLocalName()) || !XMLString::equals(f->getNamespaceURI(), a->getNamespaceURI())) w.fail(me + ": getNamedItemNS does not find attribute " + esc(a->getNodeName()));
                }
                { DOMNode* f = m->getNamedItem(a->getNodeName());
                  if (!f || !XMLString::equals(f->getNodeName(), a->getNodeName())) w.fail(me + ": getNamedItem does not find attribute " + esc(a->getNodeName())); }
                for (XMLSize_t k2 = k + 1; k2 < len; k2++) if (m->item(k2) == a) w.fail(me + ": the same attribute node occurs twice in the map");
            }
            if (m && m->item(len) != 0) w.fail(me + ": attributes.item(length) != null");
        }
        if (t == DOMNode::ATTRIBUTE_NODE) {
            DOMAttr* a = (DOMAttr*)n; DOMElement* oe = a->getOwnerElement();
            if (oe) {
                if (w.id(oe) < 0) w.fail(me + ": ownerElement is not a live registered node");
                else {
                    DOMNamedNodeMap* m = oe->getAttributes(); bool found = false;
                    for (XMLSize_t k = 0; m && k < m->getLength(); k++) if (m->item(k) == a) found = true;
                    if (!found) w.fail(me + ": attribute has ownerElement " + w.ids(oe) + " but is not in its attribute map");
                }
            }
        }
        if (t == DOMNode::DOCUMENT_NODE) {
            DOMDocument* d = (DOMDocument*)n; DOMElement* de = 0; DOMDocumentType* dt = 0; int ne = 0, nd = 0;
            for (DOMNode* c = n->getFirstChild(); c; c = c->getNextSibling()) {
                if (c->getNodeType() == DOMNode::ELEMENT_NODE) { if (!de) de = (DOMElement*)c; ne++; }
                if (c->getNodeType() == DOMNode::DOCUMENT_TYPE_NODE) { if (!dt) dt = (DOMDocumentType*)c; nd++; }
            }
            if (ne > 1) w.fail(me + ": Document has " + std::to_string(ne) + " element children");
            if (nd > 1) w.fail(me + ": Document has " + std::to_string(nd) + " doctype children");
            if (d->getDocumentElement() != de) w.fail(me + ": documentElement is " + w.ids(d->getDocumentElement()) + " but the element child is " + w.ids(de));
            if (d->getDoctype() != dt) w.fail(me + ": doctype is " + w.ids(d->getDoctype()) + " but the doctype child is " + w.ids(dt));
        }
        if (!w.inv.empty()) return;
    }
}

// ------------------------------------------------------------------------------------------------------
// view state (C14)
// ------------------------------------------------------------------------------------------------------
static std::string viewState(World& w) {
    std::string o;
    for (size_t i = 0; i < w.views.size(); i++) {
        View& v = w.views[i]; if (v.dead) continue;
        o += "V\t" + std::to_string(i) + "\t"; o.push_back(v.kind);
        try {
            if (v.kind == 'L') {
                DOMNodeList* l = (DOMNodeList*)v.p; XMLSize_t n = l->getLength();
                o += "\t" + std::to_string((long)n);
                for (XMLSize_t k = 0; k < n && k < 5000; k++) o += "\t" + w.ids(l->item(k));
                if (l->item(n) != 0) o += "\tITEM(length)!=null";
            } else if (v.kind == 'W') {
                o += "\t" + w.ids(((DOMTreeWalker*)v.p)->getCurrentNode());
            } else if (v.kind == 'R') {
                DOMRange* r = (DOMRange*)v.p;
                DOMNode* sc = r->getStartContainer(); XMLSize_t so = r->getStartOffset(); DOMNode* ec = r->getEndContainer(); XMLSize_t eo = r->getEndOffset();
                o += "\t" + w.ids(sc) + "\t" + std::to_string((long)so) + "\t" + w.ids(ec) + "\t" + std::to_string((long)eo) + "\t" + (r->getCollapsed() ? "1" : "0");
                o += "\t" + w.ids((DOMNode*)r->getCommonAncestorContainer());
            } else if (v.kind == 'I') {
                o += "\t.";
            }
        }
        catch (const DOMRangeException& e) { o += "\texc:" + std::to_string((int)e.code); }
        catch (const DOMException& e) { o += "\texc:" + std::to_string((int)e.code); }
        o += "\n";
    }
    return o;
}
static long idxOf(DOMNode* c) { long i = 0; for (DOMNode* p = c->getPreviousSibling(); p && i < 100000; p = p->getPreviousSibling()) i++; return i; }
// document order of two boundary points in one tree (computed with the child/parent getters only): -1, 0, 1
static int cmpPoints(DOMNode* an, long ao, DOMNode* bn, long bo) {
    if (an == bn) return ao < bo ? -1 : ao > bo ? 1 : 0;
    std::vector<DOMNode*> aa, ba;
    for (DOMNode* x = an; x; x = x->getParentNode()) aa.push_back(x);
    for (DOMNode* x = bn; x; x = x->getParentNode()) ba.push_back(x);
    for (size_t i = 1; i < ba.size(); i++) if (ba[i] == an) { long k = 0; DOMNode* c = ba[i - 1]; for (DOMNode* y = an->getFirstChild(); y && y != c; y = y->getNextSibling()) k++; return ao <= k ? -1 : 1; }
    for (size_t i = 1; i < aa.size(); i++) if (aa[i] == bn) { long k = 0; DOMNode* c = aa[i - 1]; for (DOMNode* y = bn->getFirstChild(); y && y != c; y = y->getNextSibling()) k++; return k < bo ? -1 : 1; }
    size_t i = aa.size(), j = ba.size();
    while (i > 0 && j > 0 && aa[i - 1] == ba[j - 1]) { i--; j--; }
    if (i == 0 || j == 0 || i == aa.size()) return 0;
    DOMNode* common = aa[i]; DOMNode* ca = aa[i - 1]; DOMNode* cb = ba[j - 1];
    for (DOMNode* y = common->getFirstChild(); y; y = y->getNextSibling()) { if (y == ca) return -1; if (y == cb) return 1; }
    return 0;
}
static void checkRangeInvariants(World& w) {
    for (size_t i = 0; i < w.views.size(); i++) {
        View& v = w.views[i]; if (v.dead || v.kind != 'R') continue;
        std::string me = "V" + std::to_string(i);
        try {
            DOMRange* r = (DOMRange*)v.p;
            DOMNode* sc = r->getStartContainer(); DOMNode* ec = r->getEndContainer();
            XMLSize_t so = r->getStartOffset(), eo = r->getEndOffset();
            if (!sc || !ec) { w.fail(me + ": range container is null"); continue; }
            if (w.id(sc) < 0 || w.id(ec) < 0) { w.fail(me + ": range container is not a live node"); continue; }
            DOMNode* cs[2] = { sc, ec }; XMLSize_t os[2] = { so, eo };
            for (int k = 0; k < 2; k++) {
                short t = cs[k]->getNodeType(); XMLSize_t len;
                if (t == DOMNode::TEXT_NODE || t == DOMNode::CDATA_SECTION_NODE || t == DOMNode::COMMENT_NODE || t == DOMNode::PROCESSING_INSTRUCTION_NODE) len = XMLString::stringLen(cs[k]->getNodeValue());
                else { len = 0; for (DOMNode* c = cs[k]->getFirstChild(); c; c = c->getNextSibling()) len++; }
                if (os[k] > len) w.fail(me + ": range " + (k ? "end" : "start") + " offset " + std::to_string((long)os[k]) + " exceeds the container length " + std::to_string((long)len));
            }
            DOMNode* rs = sc; while (rs->getParentNode()) rs = rs->getParentNode();
            DOMNode* re = ec; while (re->getParentNode()) re = re->getParentNode();
            if (rs != re) w.fail(me + ": range boundary points have different root containers");
            else if (cmpPoints(sc, (long)so, ec, (long)eo) > 0) w.fail(me + ": range start is after its end");
        }
        catch (const DOMException&) {}
    }
}

// ------------------------------------------------------------------------------------------------------
// operations
// ------------------------------------------------------------------------------------------------------
struct Out { std::string s; DOMNode* ret = 0; };
static std::string okN(World& w, DOMNode* n) { return n ? "ok:n" : "ok:-"; }

static bool isCharData(DOMNode* n) { short t = n->getNodeType(); return t == DOMNode::TEXT_NODE || t == DOMNode::CDATA_SECTION_NODE || t == DOMNode::COMMENT_NODE; }
static DOMDocument* asDoc(DOMNode* n) { if (!n || n->getNodeType() != DOMNode::DOCUMENT_NODE) throw std::string("bad:not a document"); return (DOMDocument*)n; }
static DOMElement* asEl(DOMNode* n) { if (!n || n->getNodeType() != DOMNode::ELEMENT_NODE) throw std::string("bad:not an element"); return (DOMElement*)n; }
static DOMAttr* asAttr(DOMNode* n) { if (!n || n->getNodeType() != DOMNode::ATTRIBUTE_NODE) throw std::string("bad:not an attribute"); return (DOMAttr*)n; }
static DOMCharacterData* asCD(DOMNode* n) { if (!n || !isCharData(n)) throw std::string("bad:not character data"); return (DOMCharacterData*)n; }
static DOMText* asText(DOMNode* n) { if (!n || (n->getNodeType() != DOMNode::TEXT_NODE && n->getNodeType() != DOMNode::CDATA_SECTION_NODE)) throw std::string("bad:not text"); return (DOMText*)n; }
static_assert(sizeof(XMLSize_t) == 8, "the generators of pbt/domhist.py assume a 64-bit XMLSize_t (SIZE_MAX = 2^64-1)");
static XMLSize_t toSize(const std::string& s) { return (XMLSize_t)strtoull(s.c_str(), 0, 10); }

// result encodings
static std::string rNode(World& w, DOMNode* n, DOMNode*& ret) { ret = n; return n ? std::string("ok:n") : std::string("ok:-"); }
static std::string rStr(const XMLCh* s) { return "ok:s" + escN(s); }
static std::string rInt(long v) { return "ok:i" + std::to_string(v); }

static std::string runOp(World& w, const std::vector<std::string>& a, DOMNode*& ret, std::vector<DOMNode*>& toKill) {
    const std::string& op = a[0];
    auto A = [&a](size_t i) -> const std::string& { static std::string empty; if (i >= a.size()) throw std::string("bad:arity"); return a[i]; };
    // ---- creation
    if (op == "cel") return rNode(w, asDoc(w.node(A(1)))->createElement(S(A(2)).c()), ret);
    if (op == "celns") return rNode(w, asDoc(w.node(A(1)))->createElementNS(S(A(2)).c(), S(A(3)).c()), ret);
    if (op == "ctx") return rNode(w, asDoc(w.node(A(1)))->createTextNode(S(A(2)).c()), ret);
    if (op == "ccm") return rNode(w, asDoc(w.node(A(1)))->createComment(S(A(2)).c()), ret);
    if (op == "ccd") return rNode(w, asDoc(w.node(A(1)))->createCDATASection(S(A(2)).c()), ret);
    if (op == "cpi") return rNode(w, asDoc(w.node(A(1)))->createProcessingInstruction(S(A(2)).c(), S(A(3)).c()), ret);
    if (op == "cat") return rNode(w, asDoc(w.node(A(1)))->createAttribute(S(A(2)).c()), ret);
    if (op == "catns") return rNode(w, asDoc(w.node(A(1)))->createAttributeNS(S(A(2)).c(), S(A(3)).c()), ret);
    if (op == "cfr") return rNode(w, asDoc(w.node(A(1)))->createDocumentFragment(), ret);
    if (op == "cer") return rNode(w, asDoc(w.node(A(1)))->createEntityReference(S(A(2)).c()), ret);
    // ---- child list
    if (op == "app") { DOMNode* p = w.node(A(1)); DOMNode* c = w.node(A(2)); if (!p || !c) throw std::string("bad:null"); return rNode(w, p->appendChild(c), ret); }
    if (op == "ins") { DOMNode* p = w.node(A(1)); DOMNode* c = w.node(A(2)); DOMNode* r = w.node(A(3)); if (!p || !c) throw std::string("bad:null"); return rNode(w, p->insertBefore(c, r), ret); }
    if (op == "rem") { DOMNode* p = w.node(A(1)); DOMNode* c = w.node(A(2)); if (!p || !c) throw std::string("bad:null"); return rNode(w, p->removeChild(c), ret); }
    if (op == "rep") { DOMNode* p = w.node(A(1)); DOMNode* c = w.node(A(2)); DOMNode* o = w.node(A(3)); if (!p || !c || !o) throw std::string("bad:null"); return rNode(w, p->replaceChild(c, o), ret); }
    // ---- attributes
    if (op == "sat") { asEl(w.node(A(1)))->setAttribute(S(A(2)).c(), S(A(3)).c()); return "ok"; }
    if (op == "satns") { asEl(w.node(A(1)))->setAttributeNS(S(A(2)).c(), S(A(3)).c(), S(A(4)).c()); return "ok"; }
    if (op == "rat") {   // removeAttribute releases the removed Attr node (Xerces memory model): it leaves the live set
        DOMElement* e = asEl(w.node(A(1))); S nm(A(2)); DOMAttr* old = e->getAttributeNode(nm.c());
        e->removeAttribute(nm.c()); if (old) toKill.push_back(old); return "ok"; }
    if (op == "ratns") {
        DOMElement* e = asEl(w.node(A(1))); S ns(A(2)), ln(A(3)); DOMAttr* old = e->getAttributeNodeNS(ns.c(), ln.c());
        e->removeAttributeNS(ns.c(), ln.c()); if (old) toKill.push_back(old); return "ok"; }
    if (op == "san") return rNode(w, asEl(w.node(A(1)))->setAttributeNode(asAttr(w.node(A(2)))), ret);
    if (op == "sanns") return rNode(w, asEl(w.node(A(1)))->setAttributeNodeNS(asAttr(w.node(A(2)))), ret);
    if (op == "ran") return rNode(w, asEl(w.node(A(1)))->removeAttributeNode(asAttr(w.node(A(2)))), ret);
    if (op == "gat") return rStr(asEl(w.node(A(1)))->getAttribute(S(A(2)).c()));
    if (op == "gatns") return rStr(asEl(w.node(A(1)))->getAttributeNS(S(A(2)).c(), S(A(3)).c()));
    if (op == "gan") return rNode(w, asEl(w.node(A(1)))->getAttributeNode(S(A(2)).c()), ret);
    if (op == "ganns") return rNode(w, asEl(w.node(A(1)))->getAttributeNodeNS(S(A(2)).c(), S(A(3)).c()), ret);
    if (op == "hat") return rInt(asEl(w.node(A(1)))->hasAttribute(S(A(2)).c()) ? 1 : 0);
    if (op == "hatns") return rInt(asEl(w.node(A(1)))->hasAttributeNS(S(A(2)).c(), S(A(3)).c()) ? 1 : 0);
    // ---- character data
    if (op == "apd") { asCD(w.node(A(1)))->appendData(S(A(2)).c()); return "ok"; }
    if (op == "insd") { asCD(w.node(A(1)))->insertData(toSize(A(2)), S(A(3)).c()); return "ok"; }
    if (op == "deld") { asCD(w.node(A(1)))->deleteData(toSize(A(2)), toSize(A(3))); return "ok"; }
    if (op == "repd") { asCD(w.node(A(1)))->replaceData(toSize(A(2)), toSize(A(3)), S(A(4)).c()); return "ok"; }
    if (op == "subd") return rStr(asCD(w.node(A(1)))->substringData(toSize(A(2)), toSize(A(3))));
    if (op == "setv") { DOMNode* n = w.node(A(1)); if (!n) throw std::string("bad:null"); n->setNodeValue(S(A(2)).c()); return "ok"; }
    if (op == "getv") { DOMNode* n = w.node(A(1)); if (!n) throw std::string("bad:null"); return rStr(n->getNodeValue()); }
    if (op == "split") return rNode(w, asText(w.node(A(1)))->splitText(toSize(A(2))), ret);
    if (op == "norm") { DOMNode* n = w.node(A(1)); if (!n) throw std::string("bad:null"); n->normalize(); return "ok"; }
    // ---- copy
    if (op == "clone") { DOMNode* n = w.node(A(1)); if (!n) throw std::string("bad:null"); return rNode(w, n->cloneNode(A(2) == "1"), ret); }
    if (op == "imp") { DOMNode* n = w.node(A(2)); if (!n) throw std::string("bad:null"); return rNode(w, asDoc(w.node(A(1)))->importNode(n, A(3) == "1"), ret); }
    // ---- extensions
    if (op == "adopt") { DOMNode* n = w.node(A(2)); if (!n) throw std::string("bad:null"); DOMNode* r = asDoc(w.node(A(1)))->adoptNode(n); return r ? "ok:n" + w.ids(r) : std::string("ok:-"); }
    if (op == "ren") { DOMNode* n = w.node(A(2)); if (!n) throw std::string("bad:null"); return rNode(w, asDoc(w.node(A(1)))->renameNode(n, S(A(3)).c(), S(A(4)).c()), ret); }
    if (op == "stc") { DOMNode* n = w.node(A(1)); if (!n) throw std::string("bad:null"); n->setTextContent(S(A(2)).c()); return "ok"; }
    if (op == "gtc") { DOMNode* n = w.node(A(1)); if (!n) throw std::string("bad:null"); return rStr(n->getTextContent()); }
    if (op == "spfx") { DOMNode* n = w.node(A(1)); if (!n) throw std::string("bad:null"); n->setPrefix(S(A(2)).c()); return "ok"; }
    if (op == "eq") { DOMNode* n = w.node(A(1)); DOMNode* m = w.node(A(2)); if (!n || !m) throw std::string("bad:null"); return rInt(n->isEqualNode(m) ? 1 : 0); }
    if (op == "cmp") { DOMNode* n = w.node(A(1)); DOMNode* m = w.node(A(2)); if (!n || !m) throw std::string("bad:null"); return rInt(n->compareDocumentPosition(m)); }
    if (op == "sid") { asEl(w.node(A(1)))->setIdAttribute(S(A(2)).c(), A(3) == "1"); return "ok"; }
    if (op == "sidn") { asEl(w.node(A(1)))->setIdAttributeNode(asAttr(w.node(A(2))), A(3) == "1"); return "ok"; }
    if (op == "sidns") { asEl(w.node(A(1)))->setIdAttributeNS(S(A(2)).c(), S(A(3)).c(), A(4) == "1"); return "ok"; }
    if (op == "idbulk") {
        // n elements with a user-determined ID attribute "<prefix><i>" under a holder element that is never entered into the
        // table of live nodes (they fill the document's ID table: collisions, "once used" markers, table growth)
        DOMDocument* d = asDoc(w.node(A(1))); long n = atol(A(2).c_str()); std::string pre = A(3);
        DOMElement* holder = d->createElement(X("holder").c());
        for (long i = 0; i < n; i++) {
            DOMElement* e = d->createElement(X("h").c());
            e->setAttribute(X("id").c(), U(pre + std::to_string(i)).c());
            e->setIdAttribute(X("id").c(), true);
            holder->appendChild(e);
        }
        return "ok";
    }
    if (op == "gid") { return rNode(w, asDoc(w.node(A(1)))->getElementById(S(A(2)).c()), ret); }
    // ---- views: node iterator
    if (op == "cit" || op == "ctw") {
        DOMDocument* d = asDoc(w.node(A(1))); DOMNode* root = w.node(A(2)); unsigned long mask = strtoul(A(3).c_str(), 0, 10);
        NameFilterT* f = 0; if (A(4) != "-") { f = new NameFilterT(A(4)); w.filters.push_back(f); }
        View v; v.dead = false; v.doc = d;
        if (op == "cit") { v.kind = 'I'; v.p = d->createNodeIterator(root, (DOMNodeFilter::ShowType)mask, f, A(5) == "1"); }
        else { v.kind = 'W'; v.p = d->createTreeWalker(root, (DOMNodeFilter::ShowType)mask, f, A(5) == "1"); }
        w.views.push_back(v); return "ok:v" + std::to_string(w.views.size() - 1);
    }
    if (op == "itn") return rNode(w, ((DOMNodeIterator*)w.view(A(1), 'I').p)->nextNode(), ret);
    if (op == "itp") return rNode(w, ((DOMNodeIterator*)w.view(A(1), 'I').p)->previousNode(), ret);
    if (op == "itd") { ((DOMNodeIterator*)w.view(A(1), 'I').p)->detach(); return "ok"; }
    if (op.compare(0, 2, "tw") == 0 && op.size() == 4) {
        DOMTreeWalker* t = (DOMTreeWalker*)w.view(A(1), 'W').p; std::string m = op.substr(2);
        if (m == "pa") return rNode(w, t->parentNode(), ret);
        if (m == "fc") return rNode(w, t->firstChild(), ret);
        if (m == "lc") return rNode(w, t->lastChild(), ret);
        if (m == "ps") return rNode(w, t->previousSibling(), ret);
        if (m == "ns") return rNode(w, t->nextSibling(), ret);
        if (m == "pn") return rNode(w, t->previousNode(), ret);
        if (m == "nn") return rNode(w, t->nextNode(), ret);
        if (m == "sc") { t->setCurrentNode(w.node(A(2))); return "ok"; }
    }
    // ---- views: tag name lists
    if (op == "gebt" || op == "gebtns") {
        DOMNode* n = w.node(A(1)); if (!n) throw std::string("bad:null");
        View v; v.kind = 'L'; v.dead = false; v.doc = docOf(n);
        if (n->getNodeType() == DOMNode::DOCUMENT_NODE) v.p = op == "gebt" ? ((DOMDocument*)n)->getElementsByTagName(S(A(2)).c()) : ((DOMDocument*)n)->getElementsByTagNameNS(S(A(2)).c(), S(A(3)).c());
        else { DOMElement* e = asEl(n); v.p = op == "gebt" ? e->getElementsByTagName(S(A(2)).c()) : e->getElementsByTagNameNS(S(A(2)).c(), S(A(3)).c()); }
        w.views.push_back(v); return "ok:v" + std::to_string(w.views.size() - 1);
    }
    // ---- views: ranges
    if (op == "crg") { DOMDocument* d = asDoc(w.node(A(1))); View v; v.kind = 'R'; v.dead = false; v.doc = d; v.p = d->createRange(); w.views.push_back(v); return "ok:v" + std::to_string(w.views.size() - 1); }
    if (op[0] == 'r' && op.size() >= 3 && (op == "rss" || op == "rse" || op == "rsb" || op == "rsa" || op == "reb" || op == "rea" || op == "rcol" || op == "rsel" || op == "rselc" ||
        op == "rcmp" || op == "rdel" || op == "rext" || op == "rcln" || op == "rins" || op == "rsur" || op == "rcr" || op == "rts" || op == "rdet")) {
        View& v = w.view(A(1), 'R'); DOMRange* r = (DOMRange*)v.p;
        if (op == "rss") { r->setStart(w.node(A(2)), toSize(A(3))); return "ok"; }
        if (op == "rse") { r->setEnd(w.node(A(2)), toSize(A(3))); return "ok"; }
        if (op == "rsb") { r->setStartBefore(w.node(A(2))); return "ok"; }
        if (op == "rsa") { r->setStartAfter(w.node(A(2))); return "ok"; }
        if (op == "reb") { r->setEndBefore(w.node(A(2))); return "ok"; }
        if (op == "rea") { r->setEndAfter(w.node(A(2))); return "ok"; }
        if (op == "rcol") { r->collapse(A(2) == "1"); return "ok"; }
        if (op == "rsel") { r->selectNode(w.node(A(2))); return "ok"; }
        if (op == "rselc") { r->selectNodeContents(w.node(A(2))); return "ok"; }
        if (op == "rcmp") { DOMRange* o = (DOMRange*)w.view(A(3), 'R').p; return rInt(r->compareBoundaryPoints((DOMRange::CompareHow)atoi(A(2).c_str()), o)); }
        if (op == "rdel") { r->deleteContents(); return "ok"; }
        if (op == "rext") return rNode(w, r->extractContents(), ret);
        if (op == "rcln") return rNode(w, r->cloneContents(), ret);
        if (op == "rins") { r->insertNode(w.node(A(2))); return "ok"; }
        if (op == "rsur") { r->surroundContents(w.node(A(2))); return "ok"; }
        if (op == "rcr") { View nv; nv.kind = 'R'; nv.dead = false; nv.doc = v.doc; nv.p = r->cloneRange(); w.views.push_back(nv); return "ok:v" + std::to_string(w.views.size() - 1); }
        if (op == "rts") return rStr(r->toString());
        if (op == "rdet") { r->detach(); return "ok"; }
    }
    if (op == "nop") return "ok";
    throw std::string("bad:op ") + op;
}

static std::string hDom(const Req& r) {
    World w; std::string out;
    long ndocs = geti(r, "ndocs", 1); bool full = geti(r, "full", 0) != 0; bool views = geti(r, "views", 0) != 0;
    std::vector<std::string> idq; if (r.count("ids")) idq = split(get(r, "ids"), '\n');
    DOMImplementation* impl = DOMImplementationRegistry::getDOMImplementation(X("Core").c());

    try {
        for (long i = 0; i < ndocs; i++) {
            DOMDocument* d = 0;
            if (i == 0 && r.count("doc0")) {
                XercesDOMParser* p = new XercesDOMParser(); w.parsers.push_back(p);
                p->setDoNamespaces(true); p->setCreateEntityReferenceNodes(geti(r, "ere", 1) != 0); p->setValidationScheme(XercesDOMParser::Val_Never);
                p->setLoadExternalDTD(false); p->setIncludeIgnorableWhitespace(true);
                const std::string& doc = r.find("doc0")->second;
                MemBufInputSource src((const XMLByte*)doc.data(), doc.size(), X("mem:/doc0.xml").c(), false);
                p->parse(src);
                if (p->getErrorCount() != 0) { out = "BADSETUP\tparse errors\n"; goto done; }
                d = p->adoptDocument();
            } else d = impl->createDocument();
            if (!d) { out = "BADSETUP\tno document\n"; goto done; }
            w.docs.push_back(d); w.reg(d);
        }
    } catch (...) { out = "BADSETUP\texception\n"; goto done; }
    {
        discover(w, 0);
        checkInvariants(w);
        std::string d0 = dumpAll(w);
        char b[96]; snprintf(b, sizeof b, "\t%08x\t%zu\n", crc32(d0), d0.size());
        out += "INIT\t" + (w.inv.empty() ? std::string("-") : w.inv) + b + d0;
        std::vector<std::string> ops = split(get(r, "ops"), '\n');
        for (size_t i = 0; i < ops.size(); i++) {
            if (ops[i].empty()) continue;
            std::vector<std::string> a = split(ops[i], '\t');
            w.inv.clear(); DOMNode* ret = 0; std::string res; std::vector<DOMNode*> toKill; bool stop = false;
            try { res = runOp(w, a, ret, toKill); }
            catch (const std::string& s) { res = s; stop = true; }
            catch (const DOMRangeException& e) { res = "exc:" + std::to_string((int)e.code); }
            catch (const DOMException& e) { res = "exc:" + std::to_string((int)e.code); }
            catch (const XMLException& e) { res = "exc:xml:" + esc(e.getType()); }
            catch (const OutOfMemoryException&) { res = "exc:oom"; }
            catch (...) { res = "exc:foreign"; }
            if (stop) { out += "S\t" + std::to_string(i) + "\t" + res + "\t-\t0\t0\n"; break; }
            for (size_t k = 0; k < toKill.size(); k++) w.kill(toKill[k]);
            if (res.compare(0, 4, "exc:") == 0) ret = 0;
            discover(w, ret);
            if (res == "ok:n") res += w.ids(ret);
            checkInvariants(w);
            if (views) checkRangeInvariants(w);
            std::string d = dumpAll(w);
            snprintf(b, sizeof b, "\t%08x\t%zu", crc32(d), d.size());
            out += "S\t" + std::to_string(i) + "\t" + res + "\t" + (w.inv.empty() ? std::string("-") : w.inv) + b;
            std::string vs; if (views) { vs = viewState(w); snprintf(b, sizeof b, "\t%08x", crc32(vs)); out += b; }
            out += "\n";
            if (!idq.empty()) {
                // getElementById for the whole sample of ids on every document (compared per id with the model)
                for (size_t di = 0; di < w.docs.size(); di++) {
                    out += "G\t" + std::to_string(di);
                    for (size_t q = 0; q < idq.size(); q++) { out += "\t"; out += w.ids(w.docs[di]->getElementById(U(idq[q]).c())); }
                    out += "\n";
                }
            }
            if (full) { out += d; out += vs; }
        }
    }
done:
    for (size_t i = 0; i < w.docs.size(); i++) { try { w.docs[i]->release(); } catch (...) {} }
    for (size_t i = 0; i < w.parsers.size(); i++) delete w.parsers[i];
    for (size_t i = 0; i < w.filters.size(); i++) delete w.filters[i];
    return out;
}

} // namespace

int main() {
    XMLPlatformUtils::Initialize();
    crcInit();
    std::map<std::string, Handler> hs;
    hs["dom"] = hDom;
    int rc = serve(hs);
    XMLPlatformUtils::Terminate();
    return rc;
}
