// xv_pool: executor for C16 -- grammar pool serialisation round trip.
//   kind=pool   request: ng, g<i>.type (dtd|xsd), g<i>.sysid, g<i>.text, ent:<id> files (imports / includes),
//               ni, i<j>.doc, feat (instance parse configuration), api (dom|sax2), lock (0/1: validate against locked pools),
//               lockser (0/1: pool A is locked while it is serialised)
//   A = pool filled by loadGrammar(..., toCache=true); sA = serialize(A); B = deserialize(sA); sB = serialize(B);
//   C = deserialize(sB); sC = serialize(C).  For X in A,B,C: every instance is validated with useCachedGrammarInParse(true)
//   (runParse of xvcommon.hpp with the pool) and the pool's schema-component model / DTD grammars are dumped in sorted form.
//   Also: altered level stamp, deserialisation into a non-empty pool, short-reading stream.
#include "xvcommon.hpp"
#include <xercesc/internal/BinMemOutputStream.hpp>
#include <xercesc/internal/XSerializationException.hpp>
#include <xercesc/framework/psvi/XSModel.hpp>
#include <xercesc/framework/psvi/XSNamespaceItem.hpp>
#include <xercesc/framework/psvi/XSNamedMap.hpp>
#include <xercesc/framework/psvi/XSElementDeclaration.hpp>
#include <xercesc/framework/psvi/XSAttributeDeclaration.hpp>
#include <xercesc/framework/psvi/XSAttributeUse.hpp>
#include <xercesc/framework/psvi/XSAttributeGroupDefinition.hpp>
#include <xercesc/framework/psvi/XSModelGroupDefinition.hpp>
#include <xercesc/framework/psvi/XSModelGroup.hpp>
#include <xercesc/framework/psvi/XSParticle.hpp>
#include <xercesc/framework/psvi/XSWildcard.hpp>
#include <xercesc/framework/psvi/XSIDCDefinition.hpp>
#include <xercesc/framework/psvi/XSComplexTypeDefinition.hpp>
#include <xercesc/framework/psvi/XSSimpleTypeDefinition.hpp>
#include <xercesc/framework/psvi/XSFacet.hpp>
#include <xercesc/framework/psvi/XSMultiValueFacet.hpp>
#include <xercesc/framework/psvi/XSNotationDeclaration.hpp>
#include <xercesc/framework/psvi/XSAnnotation.hpp>
#include <xercesc/validators/DTD/DTDGrammar.hpp>
#include <xercesc/validators/DTD/DTDElementDecl.hpp>
#include <xercesc/validators/DTD/DTDAttDef.hpp>
#include <xercesc/validators/DTD/DTDEntityDecl.hpp>
#include <xercesc/validators/schema/SchemaGrammar.hpp>
#include <xercesc/validators/schema/SchemaSymbols.hpp>
#include <xercesc/util/XMLEntityResolver.hpp>
#include <set>
using namespace xv;

// ---------------------------------------------------------------------------------------------
// schema component model dump (sorted blocks; type references by name, anonymous types inline)
// ---------------------------------------------------------------------------------------------
struct ModelDump {
    std::vector<std::string> blocks;
    std::string cur;
    int depth = 0;
    std::set<const void*> open;     // anonymous types being expanded (recursion guard)

    static std::string qn(const XMLCh* ns, const XMLCh* n) { return "{" + esc(ns) + "}" + escN(n); }
    void ln(const std::string& s) { cur.append((size_t)depth * 1, ' '); cur += s; cur += '\n'; }
    static std::string strList(StringList* l) {
        std::string o = "[";
        for (XMLSize_t i = 0; l && i < l->size(); i++) { if (i) o += "|"; o += esc(l->elementAt(i)); }
        return o + "]";
    }
    void annotation(XSAnnotation* a) { for (; a; a = a->getNext()) ln("annotation " + esc(a->getAnnotationString())); }
    void annotations(XSAnnotationList* l) { for (XMLSize_t i = 0; l && i < l->size(); i++) annotation(l->elementAt(i)); }

    void typeRef(const char* what, XSTypeDefinition* t) {
        if (!t) { ln(std::string(what) + " -"); return; }
        if (!t->getAnonymous()) { ln(std::string(what) + " " + qn(t->getNamespace(), t->getName())); return; }
        ln(std::string(what) + " anonymous");
        depth++; typeDef(t); depth--;
    }
    void wildcard(const char* what, XSWildcard* w) {
        if (!w) return;
        ln(std::string(what) + " constraint=" + std::to_string((int)w->getConstraintType()) + " ns=" + strList(w->getNsConstraintList()) + " process=" + std::to_string((int)w->getProcessContents()));
        depth++; annotation(w->getAnnotation()); depth--;
    }
    void attrDecl(XSAttributeDeclaration* a) {
        if (!a) { ln("attribute -"); return; }
        ln("attribute " + qn(a->getNamespace(), a->getName()) + " scope=" + std::to_string((int)a->getScope()) + " vc=" + std::to_string((int)a->getConstraintType()) +
           " value=" + escN(a->getConstraintValue()) + " required=" + (a->getRequired() ? "1" : "0"));
        depth++; typeRef("type", a->getTypeDefinition()); annotation(a->getAnnotation()); depth--;
    }
    void attrUses(XSAttributeUseList* l) {
        std::vector<std::string> rows;
        for (XMLSize_t i = 0; l && i < l->size(); i++) {
            XSAttributeUse* u = l->elementAt(i);
            std::string save = cur; cur.clear();
            ln(std::string("use required=") + (u->getRequired() ? "1" : "0") + " vc=" + std::to_string((int)u->getConstraintType()) + " value=" + escN(u->getConstraintValue()));
            depth++; attrDecl(u->getAttrDeclaration()); depth--;
            rows.push_back(cur); cur = save;
        }
        std::sort(rows.begin(), rows.end());
        for (size_t i = 0; i < rows.size(); i++) cur += rows[i];
    }
    void idcs(XSNamedMap<XSIDCDefinition>* m) {
        std::vector<std::string> rows;
        for (XMLSize_t i = 0; m && i < m->getLength(); i++) {
            XSIDCDefinition* d = m->item(i);
            std::string save = cur; cur.clear();
            ln("idc " + qn(d->getNamespace(), d->getName()) + " category=" + std::to_string((int)d->getCategory()) + " selector=" + esc(d->getSelectorStr()) +
               " fields=" + strList(d->getFieldStrs()) + " refer=" + (d->getRefKey() ? qn(d->getRefKey()->getNamespace(), d->getRefKey()->getName()) : std::string("-")));
            depth++; annotations(d->getAnnotations()); depth--;
            rows.push_back(cur); cur = save;
        }
        std::sort(rows.begin(), rows.end());
        for (size_t i = 0; i < rows.size(); i++) cur += rows[i];
    }
    void elemDecl(XSElementDeclaration* e, bool full) {
        if (!e) { ln("element -"); return; }
        std::string h = "element " + qn(e->getNamespace(), e->getName()) + " scope=" + std::to_string((int)e->getScope());
        if (!full && e->getScope() == XSConstants::SCOPE_GLOBAL) { ln(h + " (ref)"); return; }
        ln(h + " vc=" + std::to_string((int)e->getConstraintType()) + " value=" + escN(e->getConstraintValue()) + " nillable=" + (e->getNillable() ? "1" : "0") +
           " abstract=" + (e->getAbstract() ? "1" : "0") + " final=" + std::to_string((int)e->getSubstitutionGroupExclusions()) + " block=" + std::to_string((int)e->getDisallowedSubstitutions()) +
           " subst=" + (e->getSubstitutionGroupAffiliation() ? qn(e->getSubstitutionGroupAffiliation()->getNamespace(), e->getSubstitutionGroupAffiliation()->getName()) : std::string("-")));
        depth++;
        typeRef("type", e->getTypeDefinition());
        idcs(e->getIdentityConstraints());
        annotation(e->getAnnotation());
        depth--;
    }
    void particle(XSParticle* p) {
        if (!p) { ln("particle -"); return; }
        std::string occ = " min=" + std::to_string((unsigned long)p->getMinOccurs()) + " max=" + (p->getMaxOccursUnbounded() ? std::string("unbounded") : std::to_string((unsigned long)p->getMaxOccurs()));
        switch (p->getTermType()) {
        case XSParticle::TERM_ELEMENT: ln("particle element" + occ); depth++; elemDecl(p->getElementTerm(), false); depth--; break;
        case XSParticle::TERM_MODELGROUP: ln("particle group" + occ); depth++; modelGroup(p->getModelGroupTerm()); depth--; break;
        case XSParticle::TERM_WILDCARD: ln("particle wildcard" + occ); depth++; wildcard("any", p->getWildcardTerm()); depth--; break;
        default: ln("particle empty" + occ);
        }
    }
    void modelGroup(XSModelGroup* g) {
        if (!g) { ln("modelgroup -"); return; }
        ln("modelgroup compositor=" + std::to_string((int)g->getCompositor()));
        depth++;
        XSParticleList* l = g->getParticles();
        for (XMLSize_t i = 0; l && i < l->size(); i++) particle(l->elementAt(i));
        annotation(g->getAnnotation());
        depth--;
    }
    void simpleType(XSSimpleTypeDefinition* s) {
        ln("simple variety=" + std::to_string((int)s->getVariety()) + " final=" + std::to_string((int)s->getFinal()) + " defined=" + std::to_string(s->getDefinedFacets()) +
           " fixed=" + std::to_string(s->getFixedFacets()) + " ordered=" + std::to_string((int)s->getOrdered()) + " finite=" + (s->getFinite() ? "1" : "0") +
           " bounded=" + (s->getBounded() ? "1" : "0") + " numeric=" + (s->getNumeric() ? "1" : "0"));
        depth++;
        typeRef("base", s->getBaseType());
        if (s->getVariety() == XSSimpleTypeDefinition::VARIETY_ATOMIC) { XSSimpleTypeDefinition* p = s->getPrimitiveType(); ln("primitive " + (p ? qn(p->getNamespace(), p->getName()) : std::string("-"))); }
        if (s->getVariety() == XSSimpleTypeDefinition::VARIETY_LIST) typeRef("item", s->getItemType());
        if (s->getVariety() == XSSimpleTypeDefinition::VARIETY_UNION) {
            XSSimpleTypeDefinitionList* m = s->getMemberTypes();
            for (XMLSize_t i = 0; m && i < m->size(); i++) typeRef("member", m->elementAt(i));
        }
        // facet lists are filled from a hash table of facets: their order is not part of the model -> sorted
        std::vector<std::string> rows;
        XSFacetList* fl = s->getFacets();
        for (XMLSize_t i = 0; fl && i < fl->size(); i++) {
            XSFacet* f = fl->elementAt(i);
            std::string save = cur; cur.clear();
            ln("facet kind=" + std::to_string((int)f->getFacetKind()) + " value=" + escN(f->getLexicalFacetValue()) + " fixed=" + (f->isFixed() ? "1" : "0"));
            depth++; annotation(f->getAnnotation()); depth--;
            rows.push_back(cur); cur = save;
        }
        XSMultiValueFacetList* ml = s->getMultiValueFacets();
        for (XMLSize_t i = 0; ml && i < ml->size(); i++) {
            XSMultiValueFacet* f = ml->elementAt(i);
            std::string save = cur; cur.clear();
            ln("mvfacet kind=" + std::to_string((int)f->getFacetKind()) + " values=" + strList(f->getLexicalFacetValues()) + " fixed=" + (f->isFixed() ? "1" : "0"));
            depth++; annotations(f->getAnnotations()); depth--;
            rows.push_back(cur); cur = save;
        }
        std::sort(rows.begin(), rows.end());
        for (size_t i = 0; i < rows.size(); i++) cur += rows[i];
        ln("enumeration " + strList(s->getLexicalEnumeration()));
        ln("pattern " + strList(s->getLexicalPattern()));
        annotations(s->getAnnotations());
        depth--;
    }
    void complexType(XSComplexTypeDefinition* c) {
        ln("complex derivation=" + std::to_string((int)c->getDerivationMethod()) + " abstract=" + (c->getAbstract() ? "1" : "0") + " content=" + std::to_string((int)c->getContentType()) +
           " block=" + std::to_string((int)c->getProhibitedSubstitutions()) + " final=" + std::to_string((int)c->getFinal()));
        depth++;
        typeRef("base", c->getBaseType());
        attrUses(c->getAttributeUses());
        wildcard("anyAttribute", c->getAttributeWildcard());
        if (c->getContentType() == XSComplexTypeDefinition::CONTENTTYPE_SIMPLE) typeRef("simplecontent", c->getSimpleType());
        if (c->getParticle()) particle(c->getParticle());
        annotations(c->getAnnotations());
        depth--;
    }
    void typeDef(XSTypeDefinition* t) {
        if (open.count(t) || depth > 40) { ln("(recursive)"); return; }
        open.insert(t);
        if (t->getTypeCategory() == XSTypeDefinition::COMPLEX_TYPE) complexType((XSComplexTypeDefinition*)t);
        else simpleType((XSSimpleTypeDefinition*)t);
        open.erase(t);
    }
    void flush() { if (!cur.empty()) blocks.push_back(cur); cur.clear(); depth = 0; }

    void model(XSModel* m) {
        if (!m) { blocks.push_back("NOMODEL\n"); return; }
        StringList* nss = m->getNamespaces();
        { std::vector<std::string> v; for (XMLSize_t i = 0; nss && i < nss->size(); i++) v.push_back(esc(nss->elementAt(i))); std::sort(v.begin(), v.end());
          std::string s = "namespaces"; for (size_t i = 0; i < v.size(); i++) s += " <" + v[i] + ">"; blocks.push_back(s + "\n"); }
        XSNamespaceItemList* items = m->getNamespaceItems();
        for (XMLSize_t i = 0; items && i < items->size(); i++) {
            XSNamespaceItem* it = items->elementAt(i);
            if (XMLString::equals(it->getSchemaNamespace(), SchemaSymbols::fgURI_SCHEMAFORSCHEMA)) continue;
            cur = "nsitem <" + esc(it->getSchemaNamespace()) + ">\n"; depth = 1; annotations(it->getAnnotations()); flush();
        }
        static const XSConstants::COMPONENT_TYPE kinds[] = { XSConstants::ELEMENT_DECLARATION, XSConstants::ATTRIBUTE_DECLARATION, XSConstants::TYPE_DEFINITION,
            XSConstants::ATTRIBUTE_GROUP_DEFINITION, XSConstants::MODEL_GROUP_DEFINITION, XSConstants::NOTATION_DECLARATION };
        for (size_t k = 0; k < sizeof kinds / sizeof kinds[0]; k++) {
            XSNamedMap<XSObject>* map = m->getComponents(kinds[k]);
            for (XMLSize_t i = 0; map && i < map->getLength(); i++) {
                XSObject* o = map->item(i);
                if (XMLString::equals(o->getNamespace(), SchemaSymbols::fgURI_SCHEMAFORSCHEMA)) continue;
                depth = 0;
                switch (kinds[k]) {
                case XSConstants::ELEMENT_DECLARATION: ln("GLOBAL"); elemDecl((XSElementDeclaration*)o, true); break;
                case XSConstants::ATTRIBUTE_DECLARATION: ln("GLOBAL"); attrDecl((XSAttributeDeclaration*)o); break;
                case XSConstants::TYPE_DEFINITION: ln("GLOBAL type " + qn(o->getNamespace(), o->getName())); depth = 1; typeDef((XSTypeDefinition*)o); break;
                case XSConstants::ATTRIBUTE_GROUP_DEFINITION: { XSAttributeGroupDefinition* g = (XSAttributeGroupDefinition*)o; ln("GLOBAL attributeGroup " + qn(o->getNamespace(), o->getName()));
                    depth = 1; attrUses(g->getAttributeUses()); wildcard("anyAttribute", g->getAttributeWildcard()); annotation(g->getAnnotation()); break; }
                case XSConstants::MODEL_GROUP_DEFINITION: { XSModelGroupDefinition* g = (XSModelGroupDefinition*)o; ln("GLOBAL group " + qn(o->getNamespace(), o->getName()));
                    depth = 1; modelGroup(g->getModelGroup()); annotation(g->getAnnotation()); break; }
                case XSConstants::NOTATION_DECLARATION: { XSNotationDeclaration* n = (XSNotationDeclaration*)o; ln("GLOBAL notation " + qn(o->getNamespace(), o->getName()) + " public=" + escN(n->getPublicId()) + " system=" + escN(n->getSystemId()));
                    depth = 1; annotation(n->getAnnotation()); break; }
                default: break;
                }
                flush();
            }
        }
        annotations(m->getAnnotations()); flush();
    }
    void dtd(DTDGrammar* g, const XMLCh* key) {
        blocks.push_back("DTD key=" + esc(key) + "\n");
        NameIdPoolEnumerator<DTDElementDecl> en = g->getElemEnumerator();
        while (en.hasMoreElements()) {
            DTDElementDecl& e = en.nextElement();
            cur = "DTD-ELEMENT " + esc(e.getFullName()) + " model=" + std::to_string((int)e.getModelType()) + " created=" + std::to_string((int)e.getCreateReason()) + " content=" + escN(e.getFormattedContentModel()) + "\n";
            std::vector<std::string> rows;
            if (e.hasAttDefs()) {
                XMLAttDefList& l = e.getAttDefList();
                for (XMLSize_t i = 0; i < l.getAttDefCount(); i++) {
                    XMLAttDef& a = l.getAttDef(i);
                    rows.push_back(" att " + esc(a.getFullName()) + " type=" + std::to_string((int)a.getType()) + " def=" + std::to_string((int)a.getDefaultType()) + " value=" + escN(a.getValue()) + " enum=" + escN(a.getEnumeration()) +
                                   " ext=" + (a.isExternal() ? "1" : "0") + "\n");
                }
            }
            std::sort(rows.begin(), rows.end());
            for (size_t i = 0; i < rows.size(); i++) cur += rows[i];
            flush();
        }
        NameIdPoolEnumerator<DTDEntityDecl> ee = g->getEntityEnumerator();
        while (ee.hasMoreElements()) {
            DTDEntityDecl& d = ee.nextElement();
            blocks.push_back("DTD-ENTITY " + esc(d.getName()) + " value=" + escN(d.getValue()) + " pub=" + escN(d.getPublicId()) + " sys=" + escN(d.getSystemId()) + " ndata=" + escN(d.getNotationName()) +
                             " pe=" + (d.getIsParameter() ? "1" : "0") + " internalsubset=" + (d.getDeclaredInIntSubset() ? "1" : "0") + " special=" + (d.getIsSpecialChar() ? "1" : "0") + "\n");
        }
        NameIdPoolEnumerator<XMLNotationDecl> ne = g->getNotationEnumerator();
        while (ne.hasMoreElements()) {
            XMLNotationDecl& d = ne.nextElement();
            blocks.push_back("DTD-NOTATION " + esc(d.getName()) + " pub=" + escN(d.getPublicId()) + " sys=" + escN(d.getSystemId()) + "\n");
        }
    }
    std::string finish() {
        std::sort(blocks.begin(), blocks.end());
        std::string o; for (size_t i = 0; i < blocks.size(); i++) o += blocks[i];
        return o;
    }
};

static std::string dumpPool(XMLGrammarPoolImpl* pool) {
    ModelDump md;
    try {
        bool changed = false;
        XSModel* m = pool->getXSModel(changed);
        md.model(m);
        RefHashTableOfEnumerator<Grammar> en = pool->getGrammarEnumerator();
        std::vector<std::string> keys;
        while (en.hasMoreElements()) {
            Grammar& g = en.nextElement();
            XMLGrammarDescription* d = g.getGrammarDescription();
            md.blocks.push_back(std::string("GRAMMAR type=") + (g.getGrammarType() == Grammar::DTDGrammarType ? "dtd" : "schema") + " key=" + esc(d ? d->getGrammarKey() : 0) + " tns=" + esc(g.getTargetNamespace()) + "\n");
            if (g.getGrammarType() == Grammar::DTDGrammarType) md.dtd((DTDGrammar*)&g, d ? d->getGrammarKey() : 0);
        }
    }
    catch (const XMLException& e) { md.blocks.push_back("MODELEXC\t" + esc(e.getType()) + "\n"); }
    catch (...) { md.blocks.push_back("MODELEXC\tFOREIGN\n"); }
    return md.finish();
}

// ---------------------------------------------------------------------------------------------
struct ShortStream : public BinInputStream {     // violates the documented "must fill the requested amount" contract on purpose
    const std::string& d; size_t pos = 0, cut;
    ShortStream(const std::string& s, size_t c) : d(s), cut(c) {}
    XMLFilePos curPos() const { return pos; }
    XMLSize_t readBytes(XMLByte* const to, const XMLSize_t max) { size_t w = max; if (w > cut) w = cut; if (w > d.size() - pos) w = d.size() - pos; if (w) memcpy(to, d.data() + pos, w); pos += w; return w; }
    const XMLCh* getContentType() const { return 0; }
};
struct FullStream : public BinInputStream {
    const std::string& d; size_t pos = 0;
    FullStream(const std::string& s) : d(s) {}
    XMLFilePos curPos() const { return pos; }
    XMLSize_t readBytes(XMLByte* const to, const XMLSize_t max) { size_t w = max; if (w > d.size() - pos) w = d.size() - pos; if (w) memcpy(to, d.data() + pos, w); pos += w; return w; }
    const XMLCh* getContentType() const { return 0; }
};

static std::string excName(std::function<void()> f) {
    try { f(); }
    catch (const XSerializationException& e) { return "XSerializationException\t" + std::to_string((int)e.getCode()); }
    catch (const OutOfMemoryException&) { return "OutOfMemoryException"; }
    catch (const XMLException& e) { return "XMLException:" + esc(e.getType()) + "\t" + std::to_string((int)e.getCode()); }
    catch (...) { return "FOREIGN"; }
    return "NONE";
}

static bool serialisePool(XMLGrammarPoolImpl* pool, std::string& out, std::string& log) {
    BinMemOutputStream os(3000);
    std::string e = excName([&]() { pool->serializeGrammars(&os); });
    if (e != "NONE") { log += "SEREXC\t" + e + "\n"; return false; }
    out.assign((const char*)os.getRawBuffer(), (size_t)os.getSize());
    return true;
}

static std::string hPool(const Req& r) {
    std::string out;
    long ng = geti(r, "ng", 0), ni = geti(r, "ni", 0);
    bool lock = geti(r, "lock", 0) != 0, lockser = geti(r, "lockser", 0) != 0;
    EntStore st; st.load(r);
    MemResolver res(st);
    MemoryManager* mm = XMLPlatformUtils::fgMemoryManager;
    XMLGrammarPoolImpl* A = new XMLGrammarPoolImpl(mm);
    XMLGrammarPoolImpl* B = new XMLGrammarPoolImpl(mm);
    XMLGrammarPoolImpl* C = new XMLGrammarPoolImpl(mm);
    std::string sA, sB, sC, log;
    // ---- fill A
    {
        Dump d;
        {
            CapSAX2 p(mm, A); p.xd = &d;
            Feat lf(get(r, "loadfeat", "ns=1;schema=1;val=1;fullcheck=1"));
            configSAX2(p, lf, 0);
            Sax2Dump h(d); p.setErrorHandler(&h);
            p.setXMLEntityResolver(&res);
            for (long i = 0; i < ng; i++) {
                std::string k = "g" + std::to_string(i);
                const std::string& text = r.find(k + ".text")->second;
                std::string sysid = get(r, k + ".sysid", "mem:/" + k);
                bool dtd = get(r, k + ".type") == "dtd";
                try {
                    MemBufInputSource is((const XMLByte*)text.data(), text.size(), X(sysid).c(), false);
                    Grammar* g = p.loadGrammar(is, dtd ? Grammar::DTDGrammarType : Grammar::SchemaGrammarType, true);
                    if (!g) d.line("LOADNULL\t" + k);
                }
                XV_CATCH_ALL(d)
            }
        }
        out += "#BEGIN\tload\n" + d.finish() + "#END\tload\n";
    }
    bool ok = true;
    if (lockser) A->lockPool();
    ok = serialisePool(A, sA, log);
    if (lockser) A->unlockPool();
    if (ok) { FullStream in(sA); std::string e = excName([&]() { B->deserializeGrammars(&in); }); if (e != "NONE") { log += "DESEREXC\tB\t" + e + "\n"; ok = false; } }
    if (ok && lockser) B->unlockPool();
    if (ok) ok = serialisePool(B, sB, log);
    if (ok) { FullStream in(sB); std::string e = excName([&]() { C->deserializeGrammars(&in); }); if (e != "NONE") { log += "DESEREXC\tC\t" + e + "\n"; ok = false; } }
    if (ok) ok = serialisePool(C, sC, log);
    out += log;
    char b[200];
    snprintf(b, sizeof b, "LEN\t%zu\t%zu\t%zu\t%d\t%d\n", sA.size(), sB.size(), sC.size(), sA == sB ? 1 : 0, sB == sC ? 1 : 0);
    out += b;
    if (ok) {
        // ---- rejections
        {
            std::string bad = sA; unsigned int lvl; memcpy(&lvl, bad.data(), sizeof lvl); lvl += (unsigned int)geti(r, "stampdelta", 1); memcpy(&bad[0], &lvl, sizeof lvl);
            XMLGrammarPoolImpl* T = new XMLGrammarPoolImpl(mm);
            FullStream in(bad);
            out += "STAMP\t" + excName([&]() { T->deserializeGrammars(&in); }) + "\n";
            delete T;
        }
        {
            FullStream in(sA);
            out += "NONEMPTY\t" + excName([&]() { B->deserializeGrammars(&in); }) + "\n";       // B already holds the grammars
        }
        {
            XMLGrammarPoolImpl* T = new XMLGrammarPoolImpl(mm);
            ShortStream in(sA, 1000);
            out += "SHORTREAD\t" + excName([&]() { T->deserializeGrammars(&in); }) + "\n";
            delete T;
        }
        // ---- behaviour of the three pools
        XMLGrammarPoolImpl* pools[3] = { A, B, C };
        const char* names[3] = { "A", "B", "C" };
        int npools = geti(r, "onlya", 0) ? 1 : 3;
        for (int k = 0; k < npools; k++) {
            if (lock) pools[k]->lockPool();
            for (long j = 0; j < ni; j++) {
                Req pr;
                pr["api"] = get(r, "api", "dom");
                pr["feat"] = get(r, "feat", "ns=1;schema=1;val=1;usecached=1");
                // PSVI type names only on the first parse against each pool: a later PSVI parse on the same pool crashes on the unchanged
                // tree even for the ORIGINAL pool (IGXMLScanner2.cpp:655, null XSSimpleTypeDefinition) -- not a matter of this property
                if (j == 0 && geti(r, "psvifirst", 0)) pr["feat"] += ";psvi=1";
                pr["doc"] = r.find("i" + std::to_string(j) + ".doc")->second;
                pr["sysid"] = "mem:/inst" + std::to_string(j) + ".xml";
                for (Req::const_iterator it = r.begin(); it != r.end(); ++it) if (it->first.compare(0, 4, "ent:") == 0) pr[it->first] = it->second;
                ParseOut po;
                runParse(pr, po, pools[k], mm);
                out += std::string("#BEGIN\tinst\t") + std::to_string(j) + "\t" + names[k] + "\n" + po.ced + "#END\tinst\n";
            }
            out += std::string("#BEGIN\tmodel\t") + names[k] + "\n" + dumpPool(pools[k]) + "#END\tmodel\n";
            if (lock) pools[k]->unlockPool();
        }
    }
    delete C; delete B; delete A;
    return out;
}

int main() {
    XMLPlatformUtils::Initialize();
    std::map<std::string, Handler> hs;
    hs["pool"] = hPool;
    int rc = serve(hs);
    XMLPlatformUtils::Terminate();
    return rc;
}
