// fz_regex: libFuzzer target for C01 -- any pattern / options / subject through RegularExpression.
// Oracle: sanitizers + exception audit (only XMLException family, e.g. ParseException / RuntimeException, may escape).
// Input: options byte(s) from the end; front = pattern "\n" subject (UTF-8, decoded leniently to UTF-16).
#include "xvcommon.hpp"
#include <fuzzer/FuzzedDataProvider.h>
#include <xercesc/util/regx/RegularExpression.hpp>
#include <xercesc/util/regx/Match.hpp>
#include <xercesc/util/RefArrayVectorOf.hpp>
using namespace xv;
static bool g_init = false;
// the string-level targets take UTF-16 strings from strictly valid UTF-8 only: lone surrogates are not text (and only reachable through the raw API)
static bool validUtf8(const std::string& s) {
    size_t i = 0, n = s.size();
    while (i < n) {
        unsigned c = (unsigned char)s[i]; int k; unsigned cp;
        if (c < 0x80) { i++; continue; }
        else if (c >= 0xC2 && c <= 0xDF) { k = 1; cp = c & 0x1F; }
        else if (c >= 0xE0 && c <= 0xEF) { k = 2; cp = c & 0x0F; }
        else if (c >= 0xF0 && c <= 0xF4) { k = 3; cp = c & 0x07; }
        else return false;
        for (int j = 1; j <= k; j++) { if (i + j >= n) return false; unsigned t = (unsigned char)s[i + j]; if ((t & 0xC0) != 0x80) return false; cp = (cp << 6) | (t & 0x3F); }
        if ((k == 2 && (cp < 0x800 || (cp >= 0xD800 && cp <= 0xDFFF))) || (k == 3 && (cp < 0x10000 || cp > 0x10FFFF))) return false;
        i += k + 1;
    }
    return true;
}
static void die(const char* why) { fprintf(stderr, "\n==XV-ORACLE== %s\n", why); fflush(stderr); __builtin_trap(); }
extern "C" int LLVMFuzzerTestOneInput(const uint8_t* data, size_t size) {
    if (!g_init) { g_init = true; XMLPlatformUtils::Initialize(); }
    if (size > 300) return 0;                    // long patterns only buy exponential backtracking (a performance matter, not C01)
    FuzzedDataProvider fdp(data, size);
    static const char* optsets[] = {"", "X", "i", "s", "m", "x", "F", "H", "XF", "XH", "is", "imsx", "w", ","};
    unsigned oi = fdp.ConsumeIntegralInRange<unsigned>(0, 13);
    unsigned mode = fdp.ConsumeIntegralInRange<unsigned>(0, 3);
    std::string body = fdp.ConsumeRemainingBytesAsString();
    size_t nl = body.find('\n');
    std::string pat = nl == std::string::npos ? body : body.substr(0, nl);
    std::string sub = nl == std::string::npos ? std::string("ab") : body.substr(nl + 1);
    if (sub.size() > 40) sub.resize(40);
    // bound nesting of unbounded quantifiers: more than 3 of * + { in one pattern is not explored (catastrophic backtracking)
    int q = 0; for (size_t i = 0; i < pat.size(); i++) if (pat[i] == '*' || pat[i] == '+' || pat[i] == '{') q++;
    if (q > 3) return 0;
    if (!validUtf8(pat) || !validUtf8(sub)) return 0;
    // known finding C01-regex-nested-closure-recursion (= C11-nested-nullable-closure-recursion): a quantified group whose body itself contains a
    // quantifier can recurse without bound in RegularExpression::match (stack overflow); the class is filtered here so that the campaign continues
    static const bool noFilter = getenv("XV_NO_FILTER") != 0;      // witnesses of the known finding are replayed with the filter off
    for (size_t i = 0; !noFilter && i + 1 < pat.size(); i++)
        if (pat[i] == ')' && (pat[i + 1] == '*' || pat[i + 1] == '+' || pat[i + 1] == '{')) {
            for (size_t j = 0; j < i; j++) if (pat[j] == '*' || pat[j] == '+' || pat[j] == '?' || pat[j] == '{') return 0;
        }
    // known finding C01-regex-counted-quantifier-unrolling: {n,m} is compiled by unrolling the operand m times (RegularExpression::compileClosure), so
    // time and memory grow with the NUMBER written in the pattern, not with its length; counts of 4 and more digits are not explored
    for (size_t i = 0; !noFilter && i < pat.size(); i++)
        if (pat[i] == '{') { size_t j = i + 1, run = 0, best = 0; while (j < pat.size() && pat[j] != '}') { if (isdigit((unsigned char)pat[j])) { run++; if (run > best) best = run; } else run = 0; j++; } if (best >= 4) return 0; }
    // known finding C01-regex-nongreedy-zero-width-loop: a non-greedy closure (*? +? {n,}?) whose operand can match the empty string (anchor, group,
    // back reference, ...) never leaves RegularExpression::match when what follows fails.  Only non-greedy closures of a plain character, '.',
    // or a character class are explored.
    for (size_t i = 1; !noFilter && i + 1 < pat.size(); i++)
        if (pat[i + 1] == '?' && (pat[i] == '*' || pat[i] == '+' || pat[i] == '}')) {
            size_t k = i; if (pat[i] == '}') { while (k > 0 && pat[k] != '{') k--; }
            if (k == 0) return 0;
            unsigned char o = (unsigned char)pat[k - 1];
            bool simple = (isalnum(o) || o == '.' || o == ']' || o >= 0x80) && !(k >= 2 && pat[k - 2] == '\\');
            if (!simple) return 0;
        }
    X xp(pat), xs(sub), xo(optsets[oi]);
    try {
        RegularExpression re(xp.c(), xo.c());
        XMLSize_t n = XMLString::stringLen(xs.c());
        if (mode == 0) re.matches(xs.c());
        else if (mode == 1) { Match m; re.matches(xs.c(), &m); }
        else if (mode == 2) { re.matches(xs.c(), 0, n); if (n > 1) re.matches(xs.c(), 1, n - 1); }
        else { RefArrayVectorOf<XMLCh>* t = re.tokenize(xs.c()); delete t; XMLCh* r = re.replace(xs.c(), X("<$1>").c()); XMLString::release(&r); }
    }
    catch (const OutOfMemoryException&) {}
    catch (const XMLException&) {}
    catch (...) { die("foreign-exception from RegularExpression"); }
    return 0;
}
