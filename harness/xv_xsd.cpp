// xv_xsd: executor for the XML Schema property family (C08 structures, C10 identity constraints)
//   kind=parse   same as xvexec (schemas reached through xsi:schemaLocation hints + in-memory resolver)
//   kind=xsd     load one or more schema documents with loadGrammar() into a fresh grammar pool, then parse
//                n instance documents, each with a FRESH parser sharing that pool (use-cached-grammar on).
//       fields:  feat, api          parser configuration (as for kind=parse); `feat` is used for the loader too
//                load               comma separated system ids, loaded in this order (bytes in ent:<sysid>)
//                ent:<sysid>        schema documents (also reachable through import/include via the resolver)
//                n, doc0..doc<n-1>  instance documents
//                mode               err (default: only ERR/EXC lines per document) | ced (full event dump)
//                lock               1: lock the pool after loading (default 1)
//       answer:  "#LOAD\n" ERR/EXC lines of the load phase, then per document "#DOC\t<i>\n" + lines
#include "xvcommon.hpp"
#include <xercesc/validators/common/Grammar.hpp>
using namespace xv;

static std::string hParse(const Req& r) {
    ParseOut po; runParse(r, po);
    std::string out = po.ced;
    char b[200];
    snprintf(b, sizeof b, "#STAT\t%ld\t%ld\t%ld\t%ld\t%ld\n", po.nEvents, po.nChars, po.nErr, po.nFatal, po.reads);
    out += b;
    return out;
}

static std::string onlyErr(const std::string& ced) {
    std::string out; size_t i = 0;
    while (i < ced.size()) {
        size_t e = ced.find('\n', i); if (e == std::string::npos) e = ced.size();
        if (e - i >= 3 && (ced.compare(i, 4, "ERR\t") == 0 || ced.compare(i, 4, "EXC\t") == 0)) { out.append(ced, i, e - i); out.push_back('\n'); }
        i = e + 1;
    }
    return out;
}

static std::string hXsd(const Req& r) {
    std::string out = "#LOAD\n";
    Feat f(get(r, "feat"));
    MemoryManager* mm = XMLPlatformUtils::fgMemoryManager;
    XMLGrammarPoolImpl* pool = new XMLGrammarPoolImpl(mm);
    EntStore st; st.load(r);
    {
        Dump d;
        MemResolver res(st);
        try {
            CapSAX2 p(mm, pool); p.xd = &d; configSAX2(p, f, 0);
            Sax2Dump h(d); p.setErrorHandler(&h);
            p.setXMLEntityResolver(&res);
            std::vector<std::string> ids = split(get(r, "load"), ',');
            for (size_t i = 0; i < ids.size(); i++) {
                if (ids[i].empty()) continue;
                std::map<std::string, std::string>::iterator it = st.ents.find(ids[i]);
                if (it == st.ents.end()) { d.line("EXC\tNOSUCHSCHEMA"); continue; }
                MemBufInputSource src((const XMLByte*)it->second.data(), it->second.size(), X(ids[i]).c(), false);
                Grammar* g = p.loadGrammar(src, Grammar::SchemaGrammarType, true);
                if (!g) d.line("#NOGRAMMAR\t" + ids[i]);
            }
        }
        XV_CATCH_ALL(d)
        out += d.finish();
    }
    if (geti(r, "lock", 1)) pool->lockPool();
    long n = geti(r, "n", 0);
    bool full = get(r, "mode", "err") == "ced";
    std::string feat = get(r, "feat") + ";usecached=1";
    long reuse = geti(r, "reuse", 0);    // >0: one parser object serves up to `reuse` consecutive documents (err mode only)
    if (reuse > 0 && !full) {
        std::string api = get(r, "api", "sax2");
        Feat f2(feat);
        MemResolver res(st);
        long i = 0;
        while (i < n) {
            Dump d;
            CapSAX2* ps = 0; CapDOMParser* pd = 0; Sax2Dump h(d); Sax1Dump eh(d);
            try {
                if (api == "dom") { pd = new CapDOMParser(0, mm, pool); pd->xd = &d; configDOM(*pd, f2, 0); pd->setErrorHandler(&eh); pd->setXMLEntityResolver(&res); }
                else { ps = new CapSAX2(mm, pool); ps->xd = &d; configSAX2(*ps, f2, 0); ps->setErrorHandler(&h); ps->setXMLEntityResolver(&res); }
            } XV_CATCH_ALL(d)
            for (long k = 0; k < reuse && i < n; k++, i++) {
                char key[32]; snprintf(key, sizeof key, "doc%ld", i);
                Req::const_iterator it = r.find(key);
                char hdr[48]; snprintf(hdr, sizeof hdr, "#DOC\t%ld\n", i);
                out += hdr;
                if (it == r.end()) { out += "EXC\tNODOC\n"; continue; }
                d.out.clear();
                try {
                    MemBufInputSource src((const XMLByte*)it->second.data(), it->second.size(), X("mem:/doc.xml").c(), false);
                    if (pd) { pd->parse(src); pd->resetDocumentPool(); } else if (ps) ps->parse(src);
                } XV_CATCH_ALL(d)
                out += onlyErr(d.finish());
            }
            delete ps; delete pd;
        }
        pool->unlockPool(); delete pool;
        return out;
    }
    for (long i = 0; i < n; i++) {
        char key[32]; snprintf(key, sizeof key, "doc%ld", i);
        Req::const_iterator it = r.find(key);
        char hdr[48]; snprintf(hdr, sizeof hdr, "#DOC\t%ld\n", i);
        out += hdr;
        if (it == r.end()) { out += "EXC\tNODOC\n"; continue; }
        Req r2;
        r2["api"] = get(r, "api", "sax2"); r2["feat"] = feat; r2["doc"] = it->second;
        for (Req::const_iterator e = r.begin(); e != r.end(); ++e) if (e->first.compare(0, 4, "ent:") == 0) r2[e->first] = e->second;
        ParseOut po; runParse(r2, po, pool);
        out += full ? po.ced : onlyErr(po.ced);
    }
    if (geti(r, "lock", 1)) pool->unlockPool();
    delete pool;
    return out;
}

int main() {
    XMLPlatformUtils::Initialize();
    std::map<std::string, Handler> hs;
    hs["parse"] = hParse;
    hs["xsd"] = hXsd;
    int rc = serve(hs);
    XMLPlatformUtils::Terminate();
    return rc;
}
