// xvthr: thread harness for property C17 (distinct parser / document / transcoder objects are safe to use
// concurrently).  Built with ThreadSanitizer (build/tsan) and, for a second pass, with ASan+UBSan (build/asan).
//
// ONE case per process (lazy initialisation happens once per process):
//   stdin (or the file named by argv[1]) holds one request in the xvcommon.hpp format.  Top-level fields:
//     n          number of threads
//     seed       schedule seed (per-thread PRNG = splitmix64(seed, thread))
//     st         1: control run -- execute all lists sequentially on the main thread instead of in threads
//     perturb    0: no perturbation; 1: seeded sched_yield()/usleep(0..300us) between items
//     prewarm    comma separated warm-up actions executed by the MAIN thread before the threads are released
//                (only used to step over known findings): kidok | rangetoken | schemaload | pool (runs the poolwarm.<k> items)
//     warmcats   comma separated category names for the `rangetoken` warm-up
//     pool.ser   1: the preloaded pool is serialised and deserialised into a fresh pool (own counting memory manager) before lockPool()
//     pool.xsd / pool.dtd   grammars preloaded into ONE shared XMLGrammarPoolImpl which is then lockPool()ed
//     i.<t>.<j>  work item j of thread t: a nested request (same format) with field `k` = item kind:
//        parse   private parser:           api feat doc ent:<sysid>...
//        pparse  parser on the shared locked pool: api feat doc ent:<sysid>...
//        dom     build/mutate/serialise a private DOM: prog (line oriented, see runDom)
//        regex   pat opt in.<k>...
//        xcode   enc ('' = local code page via XMLString::transcode) text
//        storm   s.<k> reps : xcode-storm, results compared in the thread with expectations computed before the barrier
//        life    seq (comma list of s1 s2 d l w), lifo
//        msg     which (comma list of ints)
//   The process does XMLPlatformUtils::Initialize(), (optionally) builds+locks the pool, runs the requested
//   warm-ups, then releases all threads from a barrier -- NO other main-thread warm-up.  Every thread
//   computes one result string per item.  Afterwards the main thread re-runs every thread's list
//   single-threaded and compares.  The harness's own code shares nothing between threads but the barrier,
//   the (read-only) case and per-thread result slots.
//   stdout: one summary line  XVTHR {json}
#include "xvcommon.hpp"
#include <xercesc/util/regx/RegularExpression.hpp>
#include <xercesc/util/regx/Match.hpp>
#include <xercesc/util/TransService.hpp>
#include <xercesc/util/XMLURL.hpp>
#include <xercesc/util/XMLUri.hpp>
#include <xercesc/util/XMLBigDecimal.hpp>
#include <xercesc/util/XMLDateTime.hpp>
#include <xercesc/util/RefVectorOf.hpp>
#include <xercesc/sax2/XMLReaderFactory.hpp>
#include <xercesc/framework/MemBufFormatTarget.hpp>
#include <xercesc/validators/common/Grammar.hpp>
#include <xercesc/dom/impl/DOMImplementationImpl.hpp>
#include <pthread.h>
#include <sched.h>
#include <set>
#include <atomic>
#include <xercesc/framework/BinOutputStream.hpp>
#include <xercesc/internal/BinMemOutputStream.hpp>
#include <xercesc/util/BinMemInputStream.hpp>
using namespace xv;

// ------------------------------------------------------------------------------------------------
// small helpers (all state is per call / per thread)
// ------------------------------------------------------------------------------------------------
static bool parseNested(const std::string& blob, Req& out) {
    FILE* f = fmemopen((void*)blob.data(), blob.size(), "r");
    if (!f) return false;
    bool ok = readReq(f, out);
    fclose(f);
    return ok;
}
static unsigned long long fnv(const std::string& s) {
    unsigned long long h = 1469598103934665603ULL;
    for (size_t i = 0; i < s.size(); i++) { h ^= (unsigned char)s[i]; h *= 1099511628211ULL; }
    return h;
}
static std::string hex(const XMLByte* p, size_t n) {
    static const char hx[] = "0123456789abcdef";
    std::string o; o.reserve(n * 2);
    for (size_t i = 0; i < n; i++) { o.push_back(hx[p[i] >> 4]); o.push_back(hx[p[i] & 15]); }
    return o;
}
struct Rng {
    unsigned long long s;
    Rng(unsigned long long seed, unsigned long long t) : s(seed * 0x9E3779B97F4A7C15ULL + t * 0xBF58476D1CE4E5B9ULL + 1) {}
    unsigned long long next() { unsigned long long z = (s += 0x9E3779B97F4A7C15ULL); z = (z ^ (z >> 30)) * 0xBF58476D1CE4E5B9ULL; z = (z ^ (z >> 27)) * 0x94D049BB133111EBULL; return z ^ (z >> 31); }
};
static bool contains(const std::string& h, const char* n) { return h.find(n) != std::string::npos; }

typedef std::set<std::string> FacSet;

// facilities a regular expression text touches (RangeTokenMap category groups are built on first use)
static void regexFacilities(const std::string& s, FacSet& fac) {
    if (contains(s, "\\p{Is") || contains(s, "\\P{Is")) fac.insert("rangetoken:block");
    for (size_t i = 0; i + 3 < s.size(); i++)
        if (s[i] == '\\' && (s[i + 1] == 'p' || s[i + 1] == 'P') && s[i + 2] == '{' && !(s[i + 3] == 'I' && i + 4 < s.size() && s[i + 4] == 's')) fac.insert("rangetoken:unicode");
    if (contains(s, "\\P{")) fac.insert("rangetoken:complement");   // complements that no factory pre-builds are created lazily in getRange()
    static const char* const sh[] = {"\\w", "\\W", "\\s", "\\S", "\\i", "\\I", "\\c", "\\C", 0};
    for (int k = 0; sh[k]; k++) if (contains(s, sh[k])) fac.insert("rangetoken:xml");
    if (contains(s, "\\d") || contains(s, "\\D")) fac.insert("rangetoken:unicode");
}

// ------------------------------------------------------------------------------------------------
// parse items: like xv::runParse, plus the *text* of every reported error (message loading)
// ------------------------------------------------------------------------------------------------
struct Sax2DumpM : public Sax2Dump {
    Sax2DumpM(Dump& dd) : Sax2Dump(dd) {}
    void m(const char* s, const SAXParseException& e) { d.line(std::string("MSG\t") + s + "\t" + esc(e.getMessage())); }
    void warning(const SAXParseException& e) { m("W", e); }
    void error(const SAXParseException& e) { m("E", e); }
    void fatalError(const SAXParseException& e) { m("F", e); }
};
struct Sax1DumpM : public Sax1Dump {
    Sax1DumpM(Dump& dd) : Sax1Dump(dd) {}
    void m(const char* s, const SAXParseException& e) { d.line(std::string("MSG\t") + s + "\t" + esc(e.getMessage())); }
    void warning(const SAXParseException& e) { m("W", e); }
    void error(const SAXParseException& e) { m("E", e); }
    void fatalError(const SAXParseException& e) { m("F", e); }
};
struct LSErrM : public DOMErrorHandler {
    Dump& d; LSErrM(Dump& dd) : d(dd) {}
    bool handleError(const DOMError& e) { d.line(std::string("MSG\t") + std::to_string((int)e.getSeverity()) + "\t" + esc(e.getMessage())); return true; }
};

static std::string runParseItem(const Req& r, XMLGrammarPool* pool, FacSet& fac) {
    MemoryManager* mm = XMLPlatformUtils::fgMemoryManager;
    std::string api = get(r, "api", "sax2");
    Feat f(get(r, "feat"));
    Req::const_iterator di = r.find("doc");
    if (di == r.end()) return "EXC\tNODOC\n";
    const std::string& doc = di->second;
    std::vector<size_t> plan;
    Dump d;
    EntStore st; st.load(r);
    MemResolver res(st);
    X sysx(get(r, "sysid", "mem:/doc.xml"));
    ChunkSource src(doc, plan, sysx.c());
    bool useRes = !st.ents.empty();
    fac.insert("scanner-id");
    if (pool) { fac.insert("shared-pool"); fac.insert("uripool"); }
    bool schema = f.b("schema", false) && f.i("val", 0) != 0;
    if (schema && !pool) fac.insert("kidOK");                       // schema documents are parsed into a DOM (XSDDOMParser)
    if (schema && !pool) fac.insert("schema-load");
    if (schema) { fac.insert("schema-validation"); for (Req::const_iterator it = r.begin(); it != r.end(); ++it) if (it->first.compare(0, 4, "ent:") == 0) regexFacilities(it->second, fac); }
    if (f.i("val", 0) != 0 && !f.b("schema", false)) fac.insert("dtd-validation");
    try {
        if (api == "sax1") {
            CapSAXParser p(0, mm, pool); p.xd = &d; configClassic(p, f, 0);
            Sax1DumpM h(d); p.setDocumentHandler(&h); p.setDTDHandler(&h); p.setErrorHandler(&h);
            if (useRes) p.setXMLEntityResolver(&res);
            p.parse(src);
        } else if (api == "sax2") {
            CapSAX2 p(mm, pool); p.xd = &d; configSAX2(p, f, 0);
            Sax2DumpM h(d); p.setContentHandler(&h); p.setLexicalHandler(&h); p.setDeclarationHandler(&h); p.setDTDHandler(&h); p.setErrorHandler(&h);
            if (useRes) p.setXMLEntityResolver(&res);
            p.parse(src);
        } else if (api == "dom") {
            fac.insert("kidOK");
            CapDOMParser p(0, mm, pool); p.xd = &d; configDOM(p, f, 0);
            Sax1DumpM eh(d); p.setErrorHandler(&eh);
            if (useRes) p.setXMLEntityResolver(&res);
            p.parse(src);
            DOMDocument* dd = p.getDocument();
            DomDumpOpts o;
            if (dd) dumpDomNode(d, dd, o);
        } else if (api == "domls") {
            fac.insert("kidOK");
            CapDOMLS p(0, mm, pool); p.xd = &d; configDOMLS(p, f, 0);
            LSErrM eh(d); p.getDomConfig()->setParameter(XMLUni::fgDOMErrorHandler, &eh);
            MemLSResolver lres(st);
            if (useRes) p.getDomConfig()->setParameter(XMLUni::fgDOMResourceResolver, &lres);
            Wrapper4InputSource in(&src, false);
            DOMDocument* dd = p.parse(&in);
            DomDumpOpts o;
            if (dd) dumpDomNode(d, dd, o);
        } else d.line("EXC\tBADAPI");
    }
    XV_CATCH_ALL(d)
    if (d.nErr) fac.insert("msgload");
    return d.finish();
}

// ------------------------------------------------------------------------------------------------
// DOM items.  prog = lines of TAB separated fields (strings in the driver's \uXXXX escaped form):
//   doctype <qname> <pub> <sys>        owner-less DOMDocumentType (DOMImplementation::createDocumentType)
//   doc <ns> <qname> <usedt>           createDocument (adopting the last unused doctype when usedt=1); node 0 = document, 1 = root
//   el <parent> <name> | elns <parent> <ns> <qname> | txt <parent> <data> | com <parent> <data> | cd <parent> <data> | pi <parent> <target> <data>
//   attr <node> <name> <value>  | attrns <node> <ns> <qname> <value>
//   rm <node> | mv <node> <newparent> | clone <node> <deep> | norm <node>
//   ser <mode>                         0: writeToString, 1: write() to a UTF-8 MemBufFormatTarget, 2: ISO-8859-1 + pretty print
// node operands are taken modulo the number of live node slots.  Every op contributes a status to the result.
// ------------------------------------------------------------------------------------------------
static bool isAncestorOrSelf(DOMNode* a, DOMNode* n) { for (; n; n = n->getParentNode()) if (n == a) return true; return false; }

static std::string runDom(const Req& r, FacSet& fac) {
    std::string out;
    static const XMLCh gLS[] = {chLatin_L, chLatin_S, chNull};
    static const XMLCh gCore[] = {chLatin_C, chLatin_o, chLatin_r, chLatin_e, chNull};
    fac.insert("domimpl-registry");
    DOMImplementation* impl = DOMImplementationRegistry::getDOMImplementation(geti(r, "core", 0) ? gCore : gLS);
    if (!impl) return "NOIMPL\n";
    DOMDocument* doc = 0;
    DOMDocumentType* dt = 0; bool dtUsed = false;
    std::vector<DOMNode*> nodes;
    std::vector<std::string> lines = split(get(r, "prog"), '\n');
    for (size_t li = 0; li < lines.size(); li++) {
        if (lines[li].empty()) continue;
        std::vector<std::string> a = split(lines[li], '\t');
        while (a.size() < 5) a.push_back("");
        const std::string op = a[0];
        try {
            if (op == "doctype") {
                fac.insert("doctype-ownerless");
                if (dt && !dtUsed) dt->release();
                dt = impl->createDocumentType(U(a[1]).c(), a[2].empty() ? 0 : U(a[2]).c(), a[3].empty() ? 0 : U(a[3]).c()); dtUsed = false;
                out += "doctype\t" + esc(dt->getName()) + "\t" + escN(dt->getPublicId()) + "\t" + escN(dt->getSystemId()) + "\n";
                continue;
            }
            if (op == "doc") {
                if (doc) { out += "doc\tSKIP\n"; continue; }
                fac.insert("kidOK");
                bool use = atoi(a[3].c_str()) && dt && !dtUsed;
                doc = impl->createDocument(a[1].empty() ? 0 : U(a[1]).c(), U(a[2]).c(), use ? dt : 0);
                if (use) dtUsed = true;
                nodes.push_back(doc); nodes.push_back(doc->getDocumentElement());
                out += "doc\tok\n";
                continue;
            }
            if (!doc) { out += op + "\tNODOC\n"; continue; }
            size_t n = nodes.size();
            DOMNode* x = nodes[(size_t)strtoul(a[1].c_str(), 0, 10) % n];
            DOMNode* nn = 0;
            if (op == "el") nn = x->appendChild(doc->createElement(U(a[2]).c()));
            else if (op == "elns") nn = x->appendChild(doc->createElementNS(a[2].empty() ? 0 : U(a[2]).c(), U(a[3]).c()));
            else if (op == "txt") nn = x->appendChild(doc->createTextNode(U(a[2]).c()));
            else if (op == "com") nn = x->appendChild(doc->createComment(U(a[2]).c()));
            else if (op == "cd") nn = x->appendChild(doc->createCDATASection(U(a[2]).c()));
            else if (op == "pi") nn = x->appendChild(doc->createProcessingInstruction(U(a[2]).c(), U(a[3]).c()));
            else if (op == "attr") { if (x->getNodeType() == DOMNode::ELEMENT_NODE) ((DOMElement*)x)->setAttribute(U(a[2]).c(), U(a[3]).c()); else { out += "attr\tSKIP\n"; continue; } }
            else if (op == "attrns") { if (x->getNodeType() == DOMNode::ELEMENT_NODE) ((DOMElement*)x)->setAttributeNS(a[2].empty() ? 0 : U(a[2]).c(), U(a[3]).c(), U(a[4]).c()); else { out += "attrns\tSKIP\n"; continue; } }
            else if (op == "rm") { DOMNode* p = x->getParentNode(); if (p && x != doc->getDocumentElement()) p->removeChild(x); else { out += "rm\tSKIP\n"; continue; } }
            else if (op == "mv") {
                DOMNode* np = nodes[(size_t)strtoul(a[2].c_str(), 0, 10) % n];
                // moving a node below itself is excluded by construction (see C13: the library's cycle check is incomplete)
                if (isAncestorOrSelf(x, np) || x == doc || x == doc->getDocumentElement()) { out += "mv\tSKIP\n"; continue; }
                np->appendChild(x);
            }
            else if (op == "clone") { if (x == doc) { out += "clone\tSKIP\n"; continue; } DOMNode* c = x->cloneNode(atoi(a[2].c_str()) != 0); DOMNode* p = x->getParentNode(); if (p && p != doc) nn = p->appendChild(c); else { nn = doc->getDocumentElement()->appendChild(c); } }
            else if (op == "norm") x->normalize();
            else if (op == "ser") {
                fac.insert("dom-serializer");
                int mode = atoi(a[1].c_str());
                DOMLSSerializer* ser = ((DOMImplementationLS*)DOMImplementationRegistry::getDOMImplementation(gLS))->createLSSerializer();
                if (mode == 0) {
                    XMLCh* s = ser->writeToString(doc);
                    out += "ser0\t" + escN(s) + "\n";
                    XMLString::release(&s);
                } else {
                    DOMLSOutput* o = ((DOMImplementationLS*)DOMImplementationRegistry::getDOMImplementation(gLS))->createLSOutput();
                    MemBufFormatTarget tgt;
                    o->setByteStream(&tgt);
                    o->setEncoding(mode == 2 ? X("ISO-8859-1").c() : X("UTF-8").c());
                    if (mode == 2 && ser->getDomConfig()->canSetParameter(XMLUni::fgDOMWRTFormatPrettyPrint, true)) ser->getDomConfig()->setParameter(XMLUni::fgDOMWRTFormatPrettyPrint, true);
                    bool ok = ser->write(doc, o);
                    out += std::string("ser") + (mode == 2 ? "2" : "1") + "\t" + (ok ? "1" : "0") + "\t" + hex(tgt.getRawBuffer(), tgt.getLen()) + "\n";
                    o->release();
                }
                ser->release();
                continue;
            }
            else { out += op + "\tBADOP\n"; continue; }
            if (nn) nodes.push_back(nn);
            out += op + "\tok\n";
        } catch (const DOMException& e) {
            fac.insert("msgload");
            out += op + "\tDOMException\t" + std::to_string((int)e.code) + "\t" + esc(e.getMessage()) + "\n";
        } catch (const XMLException& e) {
            fac.insert("msgload");
            out += op + "\tXMLException\t" + esc(e.getType()) + "\t" + esc(e.getMessage()) + "\n";
        } catch (...) { out += op + "\tFOREIGN\n"; }
    }
    if (doc) { Dump d; DomDumpOpts o; dumpDomNode(d, doc, o); out += d.finish(); }
    if (dt && !dtUsed) dt->release();
    if (doc) doc->release();
    return out;
}

// ------------------------------------------------------------------------------------------------
// regular expressions
// ------------------------------------------------------------------------------------------------
static std::string runRegex(const Req& r, FacSet& fac) {
    std::string pat = get(r, "pat"), opt = get(r, "opt"), out;
    regexFacilities(narrow(U(pat).c()), fac);
    fac.insert("regex");
    try {
        RegularExpression re(U(pat).c(), X(opt).c());
        for (int k = 0;; k++) {
            Req::const_iterator it = r.find("in." + std::to_string(k));
            if (it == r.end()) break;
            try {
                U in(it->second);
                Match m;
                bool b = re.matches(in.c(), &m);
                out += b ? "1" : "0";
                if (b) out += "[" + std::to_string(m.getStartPos(0)) + "," + std::to_string(m.getEndPos(0)) + "]";
                out += " ";
            } catch (const XMLException& e) { fac.insert("msgload"); out += "EXC:" + esc(e.getType()) + ":" + esc(e.getMessage()) + " "; }
        }
    } catch (const XMLException& e) {
        fac.insert("msgload");
        out = "COMPILE-EXC\t" + esc(e.getType()) + "\t" + std::to_string((int)e.getCode()) + "\t" + esc(e.getMessage());
    } catch (...) { out = "FOREIGN"; }
    return out + "\n";
}

// ------------------------------------------------------------------------------------------------
// transcoding: enc == "" -> local code page transcoder through XMLString::transcode (both ways);
//              otherwise a named transcoder (makeNewTranscoderFor inside TranscodeToStr / TranscodeFromStr)
// ------------------------------------------------------------------------------------------------
static std::string runXcode(const Req& r, FacSet& fac) {
    std::string enc = get(r, "enc"), out;
    U text(get(r, "text"));
    MemoryManager* mm = XMLPlatformUtils::fgMemoryManager;
    int reps = (int)geti(r, "reps", 1);
    try {
        for (int k = 0; k < reps; k++) {
            out.clear();
            if (enc.empty()) {
                fac.insert("lcp");
                char* c = XMLString::transcode(text.c(), mm);
                out += "lcp>\t" + hex((const XMLByte*)c, strlen(c)) + "\n";
                XMLCh* w = XMLString::transcode(c, mm);
                out += "lcp<\t" + esc(w) + "\n";
                XMLString::release(&c, mm); XMLString::release(&w, mm);
            } else {
                fac.insert("transservice");
                TranscodeToStr to(text.c(), enc.c_str(), mm);
                out += "to\t" + hex(to.str(), to.length()) + "\n";
                TranscodeFromStr from(to.str(), to.length(), enc.c_str(), mm);
                std::string e; escTo(e, from.str(), from.length());
                out += "from\t" + e + "\n";
            }
        }
    } catch (const XMLException& e) {
        fac.insert("msgload");
        out += "EXC\t" + esc(e.getType()) + "\t" + std::to_string((int)e.getCode()) + "\t" + esc(e.getMessage()) + "\n";
    } catch (...) { out += "FOREIGN\n"; }
    return out;
}

// ------------------------------------------------------------------------------------------------
// xcode-storm: R rounds of XMLString::transcode both ways (local code page transcoder = ONE process-wide ICU
// converter behind ICULCPTranscoder::fMutex) over a set of mostly non-ASCII strings.  ICU is not instrumented, so a
// missing lock is invisible to ThreadSanitizer: every result is compared IN THE THREAD with the expected bytes/units
// that the main thread computed single-threaded before the barrier.  fields: s.<k> (escaped strings), reps
// ------------------------------------------------------------------------------------------------
struct StormExp {
    std::vector<std::vector<XMLCh> > src;     // NUL terminated
    std::vector<std::string> bytes;           // expected local-code-page form
    std::vector<std::vector<XMLCh> > back;    // expected result of transcoding `bytes` back (NUL terminated)
};
static StormExp* stormPrepare(const Req& r) {
    MemoryManager* mm = XMLPlatformUtils::fgMemoryManager;
    StormExp* e = new StormExp;
    for (int k = 0;; k++) {
        Req::const_iterator it = r.find("s." + std::to_string(k));
        if (it == r.end()) break;
        U u(it->second);
        e->src.push_back(u.v);
        char* c = XMLString::transcode(u.c(), mm);
        e->bytes.push_back(c ? std::string(c) : std::string("\x01<null>"));
        XMLCh* w = c ? XMLString::transcode(c, mm) : 0;
        std::vector<XMLCh> b; if (w) b.assign(w, w + XMLString::stringLen(w) + 1);
        e->back.push_back(b);
        if (c) XMLString::release(&c, mm);
        if (w) XMLString::release(&w, mm);
    }
    return e;
}
static std::string runStorm(const Req& r, FacSet& fac, const StormExp* e) {
    MemoryManager* mm = XMLPlatformUtils::fgMemoryManager;
    fac.insert("lcp"); fac.insert("lcp-storm");
    if (!e || e->src.empty()) return "storm\tNOEXP\n";
    long reps = geti(r, "reps", 1000), bad = 0, nulls = 0, done = 0;
    std::string first;
    for (long i = 0; i < reps; i++) {
        size_t k = (size_t)i % e->src.size();
        char* c = XMLString::transcode(&e->src[k][0], mm);
        done++;
        if (!c) { nulls++; if (first.empty()) first = "null at round " + std::to_string(i); continue; }
        bool ok = e->bytes[k] == c;
        if (ok && (i & 1)) {
            XMLCh* w = XMLString::transcode(c, mm);
            if (!w) { nulls++; ok = true; if (first.empty()) first = "null (to XMLCh) at round " + std::to_string(i); }
            else { ok = !e->back[k].empty() && XMLString::equals(w, &e->back[k][0]); XMLString::release(&w, mm); }
        }
        if (!ok) { bad++; if (first.empty()) first = "round " + std::to_string(i) + " string " + std::to_string(k) + " got " + hex((const XMLByte*)c, strlen(c)).substr(0, 120) + " expected " + hex((const XMLByte*)e->bytes[k].data(), e->bytes[k].size()).substr(0, 120); }
        XMLString::release(&c, mm);
    }
    return "storm\trounds=" + std::to_string(done) + "\tmismatch=" + std::to_string(bad) + "\tnull=" + std::to_string(nulls) + "\t" + first + "\n";
}

// ------------------------------------------------------------------------------------------------
// create / destroy parsers and serialisers
// ------------------------------------------------------------------------------------------------
struct NullSource : public DOMImplementationSource {
    DOMImplementation* getDOMImplementation(const XMLCh*) const { return 0; }
    DOMImplementationList* getDOMImplementationList(const XMLCh*) const { return 0; }
};
static std::string runLife(const Req& r, FacSet& fac) {
    static const XMLCh gLS[] = {chLatin_L, chLatin_S, chNull};
    std::vector<std::string> seq = split(get(r, "seq"), ',');
    bool lifo = geti(r, "lifo", 0) != 0;
    std::vector<std::function<void()> > dtors;
    std::string out;
    fac.insert("scanner-id");
    try {
        for (size_t i = 0; i < seq.size(); i++) {
            const std::string& s = seq[i];
            if (s == "s1") { SAXParser* p = new SAXParser; dtors.push_back([p]() { delete p; }); }
            else if (s == "s2") { SAX2XMLReader* p = XMLReaderFactory::createXMLReader(); dtors.push_back([p]() { delete p; }); }
            else if (s == "d") { XercesDOMParser* p = new XercesDOMParser; dtors.push_back([p]() { delete p; }); }
            else if (s == "dw") { XercesDOMParser* p = new XercesDOMParser; p->useScanner(XMLUni::fgWFXMLScanner); dtors.push_back([p]() { delete p; }); }
            else if (s == "ds") { XercesDOMParser* p = new XercesDOMParser; p->useScanner(XMLUni::fgSGXMLScanner); dtors.push_back([p]() { delete p; }); }
            else if (s == "l") {
                fac.insert("domimpl-registry");
                DOMImplementationLS* ls = (DOMImplementationLS*)DOMImplementationRegistry::getDOMImplementation(gLS);
                DOMLSParser* p = ls->createLSParser(DOMImplementationLS::MODE_SYNCHRONOUS, 0); dtors.push_back([p]() { p->release(); });
            }
            else if (s == "w") {
                fac.insert("domimpl-registry");
                DOMImplementationLS* ls = (DOMImplementationLS*)DOMImplementationRegistry::getDOMImplementation(gLS);
                DOMLSSerializer* p = ls->createLSSerializer(); dtors.push_back([p]() { p->release(); });
            }
            else if (s == "src") {
                // registers one more (never matching) DOMImplementationSource: mutates the registry vector other threads search
                fac.insert("domimpl-registry");
                DOMImplementationRegistry::addSource(new NullSource);
            }
            else continue;
            out += s + " ";
        }
    } catch (const XMLException& e) { out += "EXC " + esc(e.getType()); }
    catch (...) { out += "FOREIGN"; }
    if (lifo) for (size_t i = dtors.size(); i > 0; i--) dtors[i - 1]();
    else for (size_t i = 0; i < dtors.size(); i++) dtors[i]();
    return out + "\n";
}

// ------------------------------------------------------------------------------------------------
// message loading: provoke exceptions and read their text
// ------------------------------------------------------------------------------------------------
static std::string runMsg(const Req& r, FacSet& fac) {
    std::vector<std::string> w = split(get(r, "which"), ',');
    std::string out;
    fac.insert("msgload");
    MemoryManager* mm = XMLPlatformUtils::fgMemoryManager;
    for (size_t i = 0; i < w.size(); i++) {
        int k = atoi(w[i].c_str());
        try {
            switch (k % 8) {
            case 0: { XMLURL u(X("noproto-c17:/x/y").c()); out += "nothrow0\n"; break; }
            case 1: { RefVectorOf<XMLCh> v(2, false, mm); v.elementAt(7); out += "nothrow1\n"; break; }
            case 2: { XMLUri u(X(":::bad uri").c(), mm); out += "nothrow2\n"; break; }
            case 3: { XMLBigDecimal d(X("12x.5").c(), mm); out += "nothrow3\n"; break; }
            case 4: { XMLDateTime dt(X("2001-13-45T99:00:00").c(), mm); dt.parseDateTime(); out += "nothrow4\n"; break; }
            case 5: { RegularExpression re(X("(ab").c()); out += "nothrow5\n"; break; }
            case 6: {
                DOMImplementation* impl = DOMImplementationRegistry::getDOMImplementation(X("Core").c());
                fac.insert("domimpl-registry");
                DOMDocument* doc = impl->createDocument();
                try { doc->createElement(X("1bad name").c()); out += "nothrow6\n"; }
                catch (const DOMException& e) { out += "DOMException\t" + std::to_string((int)e.code) + "\t" + esc(e.getMessage()) + "\n"; }
                doc->release();
                break; }
            case 7: { XMLURL u(X("http://host:notaport/").c()); out += "nothrow7\t" + std::to_string(u.getPortNum()) + "\n"; break; }
            }
        } catch (const XMLException& e) {
            out += "XMLException\t" + esc(e.getType()) + "\t" + std::to_string((int)e.getCode()) + "\t" + esc(e.getMessage()) + "\n";
        } catch (const DOMException& e) {
            out += "DOMException\t" + std::to_string((int)e.code) + "\t" + esc(e.getMessage()) + "\n";
        } catch (...) { out += "FOREIGN\n"; }
    }
    return out;
}

// ------------------------------------------------------------------------------------------------
static std::string runItem(const Req& it, XMLGrammarPool* pool, FacSet& fac, const StormExp* se) {
    std::string k = get(it, "k");
    if (k == "storm") return runStorm(it, fac, se);
    if (k == "parse") return runParseItem(it, 0, fac);
    if (k == "pparse") return pool ? runParseItem(it, pool, fac) : std::string("NOPOOL\n");
    if (k == "dom") return runDom(it, fac);
    if (k == "regex") return runRegex(it, fac);
    if (k == "xcode") return runXcode(it, fac);
    if (k == "life") return runLife(it, fac);
    if (k == "msg") return runMsg(it, fac);
    return "BADKIND\n";
}

// memory manager of a restored pool: counts live blocks (relaxed atomics: no happens-before edges are added for ThreadSanitizer)
struct CountMM : public MemoryManager {
    std::atomic<long> live{0}, total{0};
    void* allocate(XMLSize_t n) { live.fetch_add(1, std::memory_order_relaxed); total.fetch_add(1, std::memory_order_relaxed); return ::operator new(n ? n : 1); }
    void deallocate(void* p) { if (p) { live.fetch_sub(1, std::memory_order_relaxed); ::operator delete(p); } }
    MemoryManager* getExceptionMemoryManager() { return XMLPlatformUtils::fgMemoryManager; }
};
static CountMM* gPoolMM = 0;

struct ThreadCtx {
    int idx = 0;
    const std::vector<Req>* items = 0;
    const std::vector<StormExp*>* storm = 0;   // per item: expectation prepared by the main thread (read-only), or 0
    XMLGrammarPool* pool = 0;
    pthread_barrier_t* bar = 0;
    unsigned long long seed = 0; int perturb = 0;
    std::vector<std::string> results;
    std::vector<FacSet> facs;        // per item
    long yields = 0, sleeps = 0;
};

static void* threadMain(void* p) {
    ThreadCtx* c = (ThreadCtx*)p;
    Rng rng(c->seed, (unsigned long long)c->idx + 1);
    c->results.resize(c->items->size());
    c->facs.resize(c->items->size());
    if (c->bar) pthread_barrier_wait(c->bar);
    for (size_t j = 0; j < c->items->size(); j++) {
        if (c->perturb) {
            unsigned long long x = rng.next();
            unsigned m = (unsigned)(x % 4);
            if (m == 1) { sched_yield(); c->yields++; }
            else if (m == 2) { usleep((useconds_t)((x >> 8) % 301)); c->sleeps++; }
        }
        c->results[j] = runItem((*c->items)[j], c->pool, c->facs[j], c->storm ? (*c->storm)[j] : 0);
    }
    return 0;
}

// warm-ups (main thread, before the barrier) -- used only to step over KNOWN findings
static void warmKidOK() {
    // (not through DOMImplementationRegistry: its lazily filled source vector must stay cold)
    DOMImplementation* impl = DOMImplementationImpl::getDOMImplementationImpl();
    DOMDocument* doc = impl->createDocument(0, X("w").c(), 0);
    doc->getDocumentElement()->appendChild(doc->createTextNode(X("t").c()));
    doc->release();
}
static void warmSchemaLoad() {
    // first schema traversal in the process (TraverseSchema::getElementAttValue fills a function-local static table)
    static const char xsd[] = "<xs:schema xmlns:xs='http://www.w3.org/2001/XMLSchema'><xs:element name='w' type='xs:string'/></xs:schema>";
    try {
        SAX2XMLReaderImpl loader;
        loader.setFeature(XMLUni::fgXercesSchema, true);
        MemBufInputSource is((const XMLByte*)xsd, sizeof xsd - 1, X("warm.xsd").c(), false);
        loader.loadGrammar(is, Grammar::SchemaGrammarType, false);
    } catch (...) {}
}
static void warmRangeToken(const std::string& cats) {
    std::vector<std::string> names = split(cats, ',');
    std::vector<std::string> pats;
    for (size_t i = 0; i < names.size(); i++) if (!names[i].empty()) { pats.push_back("\\p{" + names[i] + "}"); pats.push_back("\\P{" + names[i] + "}"); }
    static const char* const sh[] = {"\\w", "\\W", "\\s", "\\S", "\\d", "\\D", "\\i", "\\I", "\\c", "\\C", 0};
    for (int k = 0; sh[k]; k++) pats.push_back(sh[k]);
    for (size_t i = 0; i < pats.size(); i++) {
        try { RegularExpression re(X(pats[i]).c()); re.matches(X("a").c()); } catch (...) {}
        try { RegularExpression re(X(pats[i]).c(), X("X").c()); re.matches(X("a").c()); } catch (...) {}
    }
}

static std::string jstr(const std::string& s) {
    std::string o = "\"";
    for (size_t i = 0; i < s.size(); i++) {
        unsigned char c = (unsigned char)s[i];
        if (c == '"' || c == '\\') { o.push_back('\\'); o.push_back((char)c); }
        else if (c < 0x20 || c >= 0x7F) { char b[8]; snprintf(b, sizeof b, "\\u%04x", c); o += b; }
        else o.push_back((char)c);
    }
    return o + "\"";
}

int main(int argc, char** argv) {
    FILE* in = stdin;
    if (argc > 1) { in = fopen(argv[1], "rb"); if (!in) { fprintf(stderr, "xvthr: cannot open %s\n", argv[1]); return 2; } }
    Req top;
    if (!readReq(in, top)) { fprintf(stderr, "xvthr: bad request\n"); return 2; }
    int n = (int)geti(top, "n", 2);
    if (n < 1 || n > 64) { fprintf(stderr, "xvthr: bad n\n"); return 2; }
    std::vector<std::vector<Req> > items(n);
    for (int t = 0; t < n; t++)
        for (int j = 0;; j++) {
            Req::const_iterator it = top.find("i." + std::to_string(t) + "." + std::to_string(j));
            if (it == top.end()) break;
            Req r; if (!parseNested(it->second, r)) { fprintf(stderr, "xvthr: bad item %d.%d\n", t, j); return 2; }
            items[t].push_back(r);
        }

    XMLPlatformUtils::Initialize();
    int rc = 0;
    {
        // shared locked pool (only when requested by the case)
        XMLGrammarPoolImpl* pool = 0;
        std::string poolNote = "none";
        bool wantXsd = top.count("pool.xsd") != 0, wantDtd = top.count("pool.dtd") != 0;
        if (wantXsd || wantDtd) {
            MemoryManager* mm = XMLPlatformUtils::fgMemoryManager;
            pool = new XMLGrammarPoolImpl(mm);
            poolNote = "";
            try {
                SAX2XMLReaderImpl loader(mm, pool);
                loader.setFeature(XMLUni::fgSAX2CoreNameSpaces, true);
                loader.setFeature(XMLUni::fgXercesSchema, true);
                loader.setFeature(XMLUni::fgSAX2CoreValidation, true);
                if (wantDtd) {
                    const std::string& b = top["pool.dtd"];
                    MemBufInputSource is((const XMLByte*)b.data(), b.size(), X(get(top, "pool.dtd.sysid", "pool.dtd")).c(), false);
                    Grammar* g = loader.loadGrammar(is, Grammar::DTDGrammarType, true);
                    poolNote += g ? "dtd " : "dtd-FAILED ";
                }
                if (wantXsd) {
                    const std::string& b = top["pool.xsd"];
                    MemBufInputSource is((const XMLByte*)b.data(), b.size(), X("pool.xsd").c(), false);
                    Grammar* g = loader.loadGrammar(is, Grammar::SchemaGrammarType, true);
                    poolNote += g ? "xsd " : "xsd-FAILED ";
                }
            } catch (...) { poolNote += "EXC "; }
            if (geti(top, "pool.ser", 0)) {
                // the shared pool is one that was stored and restored: serializeGrammars -> bytes -> deserializeGrammars into a
                // fresh pool with its own (counting) memory manager; the original pool is discarded before anything is shared
                try {
                    BinMemOutputStream out(1 << 16, mm);
                    pool->serializeGrammars(&out);
                    gPoolMM = new CountMM;
                    XMLGrammarPoolImpl* restored = new XMLGrammarPoolImpl(gPoolMM);
                    BinMemInputStream in(out.getRawBuffer(), (XMLSize_t)out.curPos(), BinMemInputStream::BufOpt_Reference, mm);
                    restored->deserializeGrammars(&in);
                    delete pool; pool = restored;
                    poolNote += "restored(" + std::to_string((long)out.curPos()) + " bytes) ";
                } catch (const XMLException& e) { poolNote += "SER-EXC " + esc(e.getMessage()) + " "; }
                catch (...) { poolNote += "SER-EXC "; }
            }
            pool->lockPool();
        }
        // warm-ups for known findings
        std::vector<std::string> warm = split(get(top, "prewarm"), ',');
        for (size_t i = 0; i < warm.size(); i++) {
            if (warm[i] == "pool" && pool) {
                // one main-thread validation per preloaded grammar: creates the lazily built content models and the
                // lazily built match maps of the pattern facets inside the shared grammars
                FacSet dummy;
                for (int k = 0;; k++) {
                    Req::const_iterator it = top.find("poolwarm." + std::to_string(k));
                    if (it == top.end()) break;
                    Req wr; if (parseNested(it->second, wr)) runParseItem(wr, pool, dummy);
                }
            }
            else if (warm[i] == "schemaload") warmSchemaLoad();
            else if (warm[i] == "kidok") warmKidOK();
            else if (warm[i] == "rangetoken") warmRangeToken(get(top, "warmcats"));
        }

        // expectations of the xcode-storm items, computed single-threaded (this touches nothing but the local code page transcoder)
        std::vector<std::vector<StormExp*> > storm(n);
        for (int t = 0; t < n; t++)
            for (size_t j = 0; j < items[t].size(); j++)
                storm[t].push_back(get(items[t][j], "k") == "storm" ? stormPrepare(items[t][j]) : 0);

        pthread_barrier_t bar;
        pthread_barrier_init(&bar, 0, (unsigned)n);
        std::vector<ThreadCtx> ctx(n), ref(n);
        std::vector<pthread_t> th(n);
        unsigned long long seed = strtoull(get(top, "seed", "0").c_str(), 0, 10);
        int perturb = (int)geti(top, "perturb", 0);
        for (int t = 0; t < n; t++) { ctx[t].idx = t; ctx[t].items = &items[t]; ctx[t].storm = &storm[t]; ctx[t].pool = pool; ctx[t].bar = &bar; ctx[t].seed = seed; ctx[t].perturb = perturb; }
        if (geti(top, "st", 0)) {
            // single-threaded control run (used by the driver to tell a concurrency failure from a plain defect of one work item)
            for (int t = 0; t < n; t++) { ctx[t].bar = 0; ctx[t].perturb = 0; threadMain(&ctx[t]); }
        } else {
            for (int t = 0; t < n; t++) pthread_create(&th[t], 0, threadMain, &ctx[t]);
            for (int t = 0; t < n; t++) pthread_join(th[t], 0);
        }
        pthread_barrier_destroy(&bar);

        // single-threaded reference run of the same lists (same process, same pool)
        for (int t = 0; t < n; t++) { ref[t].idx = t; ref[t].items = &items[t]; ref[t].storm = &storm[t]; ref[t].pool = pool; ref[t].bar = 0; ref[t].perturb = 0; threadMain(&ref[t]); }

        // summary
        bool equal = true; std::string mism;
        std::string digs = "[";
        for (int t = 0; t < n; t++) {
            std::string all;
            for (size_t j = 0; j < items[t].size(); j++) {
                all += ctx[t].results[j]; all.push_back('\x1e');
                if (ctx[t].results[j] != ref[t].results[j]) {
                    equal = false;
                    if (mism.empty()) {
                        mism = "thread " + std::to_string(t) + " item " + std::to_string(j) + " kind " + get(items[t][j], "k") + "\n--- concurrent\n" + ctx[t].results[j].substr(0, 1500) + "\n--- single-threaded\n" + ref[t].results[j].substr(0, 1500);
                    }
                }
            }
            char b[40]; snprintf(b, sizeof b, "%s\"%016llx\"", t ? "," : "", fnv(all)); digs += b;
        }
        digs += "]";
        // facility -> threads that used it, and how many used it in their first item
        std::map<std::string, std::set<int> > facThreads; std::map<std::string, int> facFirst;
        for (int t = 0; t < n; t++)
            for (size_t j = 0; j < ctx[t].facs.size(); j++)
                for (FacSet::const_iterator f = ctx[t].facs[j].begin(); f != ctx[t].facs[j].end(); ++f) {
                    facThreads[*f].insert(t);
                    if (j == 0) facFirst[*f]++;
                }
        std::string fj = "{", ff = "{";
        for (std::map<std::string, std::set<int> >::iterator f = facThreads.begin(); f != facThreads.end(); ++f) {
            if (fj.size() > 1) { fj += ","; ff += ","; }
            fj += jstr(f->first) + ":" + std::to_string(f->second.size());
            ff += jstr(f->first) + ":" + std::to_string(facFirst[f->first]);
        }
        fj += "}"; ff += "}";
        long yields = 0, sleeps = 0, nitems = 0;
        for (int t = 0; t < n; t++) { yields += ctx[t].yields; sleeps += ctx[t].sleeps; nitems += (long)items[t].size(); }
        delete pool; pool = 0;
        long poolLive = gPoolMM ? gPoolMM->live.load() : -1, poolTotal = gPoolMM ? gPoolMM->total.load() : -1;
        printf("XVTHR {\"pool_live\":%ld,\"pool_allocs\":%ld,\"threads\":%d,\"items\":%ld,\"digests_equal\":%s,\"digests\":%s,\"facilities\":%s,\"first_item\":%s,\"pool\":%s,\"prewarm\":%s,\"yields\":%ld,\"sleeps\":%ld,\"mismatch\":%s}\n",
               poolLive, poolTotal, n, nitems, equal ? "true" : "false", digs.c_str(), fj.c_str(), ff.c_str(), jstr(poolNote).c_str(), jstr(get(top, "prewarm")).c_str(), yields, sleeps, jstr(mism).c_str());
        fflush(stdout);
        if (geti(top, "dump", 0)) for (int t = 0; t < n; t++) for (size_t j = 0; j < items[t].size(); j++) fprintf(stderr, "=== %d.%zu\n%s", t, j, ctx[t].results[j].c_str());
        if (!equal) rc = 3;
        delete pool;
    }
    XMLPlatformUtils::Terminate();
    return rc;
}
